//! POOL3: pool factory + one three-asset stableswap pool, height clock for amplification ramps.
//! Serves C04 and the 3-pool parts of C07 / C14.

use cosmwasm_std::{coin, to_json_binary, Coin, CosmosMsg, Decimal, Uint128};
use serde::{Deserialize, Serialize};
use std::str::FromStr;

use white_whale_std::fee::Fee;
use white_whale_std::pool_network::asset::{Asset, AssetInfo, TrioInfo};
use white_whale_std::pool_network::{factory, trio};

use crate::big::*;
#[allow(unused_imports)]
use crate::big::U1024;
use crate::core::{Ctx, Scenario, Tier};
use crate::rng::Rng;
use crate::world::*;

pub const OWNER: &str = "owner";
pub const COLLECTOR: &str = "collector";
pub const COLLECTOR2: &str = "collectorb";
pub const USERS: [&str; 5] = ["alice", "bobby", "carol", "david", "erin0"];
const MIN_RAMP_BLOCKS: u64 = 10_000;

#[derive(Serialize, Deserialize, Clone, Debug, PartialEq)]
#[serde(rename_all = "snake_case")]
pub enum Kind {
    Native,
    Cw20,
}

#[derive(Serialize, Deserialize, Clone, Debug)]
pub struct Cfg {
    pub kinds: [Kind; 3],
    pub amp: u64,
    pub fees: [String; 3],
    pub user_funds: u128,
    pub n_users: usize,
    pub max_steps: usize,
    pub faults: bool,
    #[serde(default)]
    pub boundary: bool,
    /// provide, withdraw, swap, collect, ramp, roundtrip, depwd, setfees
    pub weights: [u32; 8],
}

#[derive(Serialize, Deserialize, Clone, Debug, PartialEq)]
#[serde(rename_all = "snake_case")]
pub enum Op {
    Provide {
        amounts: [u128; 3],
        slippage: Option<String>,
        /// permutation (0..6) of the order in which the assets are listed in the message
        #[serde(default)]
        perm: u8,
    },
    Withdraw { lp: u128 },
    Swap { from: usize, to: usize, amount: u128, max_spread: Option<String>, belief: Option<String> },
    /// a native-offer swap with a stray coin of a foreign denom attached (`first`: it sorts before every pool denom)
    SwapStray { from: usize, to: usize, amount: u128, stray: u128, first: bool },
    Collect,
    Ramp { future_a: u64, future_block: u64 },
    RoundTrip { from: usize, to: usize, amount: u128 },
    DepositWithdraw { amounts: [u128; 3] },
    SetFees { fees: [String; 3] },
    /// the operator re-points the pool's fee collector address
    SetCollector { second: bool },
    /// hostile: WithdrawLiquidity {} called directly with a native coin attached
    WithdrawDirect { coin: usize, amount: u128 },
}

#[derive(Serialize, Deserialize, Clone, Debug, PartialEq)]
pub struct Step {
    pub actor: usize,
    pub op: Op,
    /// blocks to advance before the op
    pub adv: u64,
    pub fault: Fault,
}

#[derive(Default, Clone, Debug)]
pub struct Model {
    pub charged: [u128; 3],
    pub received: [u128; 3],
    pub burned: [u128; 3],
    pub seeded: bool,
    pub locked: u128,
    // independent copy of the ramp parameters, updated only from accepted Ramp ops
    pub amp0: u64,
    pub amp1: u64,
    pub h0: u64,
    pub h1: u64,
}

pub struct Pool3 {
    pub cfg: Cfg,
    pub app: SimApp,
    pub assets: [AssetInfo; 3],
    pub factory: String,
    pub trio: String,
    pub lp: String,
    pub fee18: [u128; 3],
    pub blocks: u64,
    pub model: Model,
    pub collector_now: String,
    pub perm_next: std::cell::Cell<u8>,
    /// (amount, sorts first) of the stray coin the next native-offer swap message carries
    pub stray_next: std::cell::Cell<Option<(u128, bool)>>,
    /// scripted steps to emit before anything else
    pub queue: Vec<Step>,
}

#[derive(Clone, Debug)]
pub struct Obs {
    pub reserves: [u128; 3],
    pub share: u128,
    pub pending: [u128; 3],
    pub all_time: [u128; 3],
    pub burned: [u128; 3],
    pub bal: [u128; 3],
    pub collector: [u128; 3],
    /// the collector address the pool is NOT configured with
    pub other_collector: [u128; 3],
    pub users: Vec<[u128; 3]>,
    pub users_lp: Vec<u128>,
    pub lp_pool: u128,
    pub supply: [u128; 3],
}

pub fn pool_fee(f: &[String; 3]) -> trio::PoolFee {
    trio::PoolFee {
        protocol_fee: Fee { share: Decimal::from_str(&f[0]).unwrap() },
        swap_fee: Fee { share: Decimal::from_str(&f[1]).unwrap() },
        burn_fee: Fee { share: Decimal::from_str(&f[2]).unwrap() },
    }
}

fn gen_fees(rng: &mut Rng) -> [String; 3] {
    let pick = |rng: &mut Rng| -> u128 {
        match rng.below(8) {
            0 | 1 => 0,
            2 => 1,
            3 => E18 / 1000,
            4 => rng.range128(0, E18 / 10),
            _ => rng.range128(0, E18 / 100),
        }
    };
    let mut f = [pick(rng), pick(rng), pick(rng)];
    if rng.chance(1, 10) {
        f = [0, 0, 0];
    }
    [atomics_to_dec(f[0]), atomics_to_dec(f[1]), atomics_to_dec(f[2])]
}

// ---- exact curve for n = 3 ------------------------------------------------------------------
//   g(D) = (Ann*S + D - Ann*D) * 27xyz - D^4 ,  Ann = amp * 3

fn g3_nonneg(d: U1024, x: [U1024; 3], ann: U1024) -> bool {
    let p = U1024::from(27u32) * x[0] * x[1] * x[2];
    let s = x[0] + x[1] + x[2];
    let lhs = (ann * s + d) * p;
    let rhs = ann * d * p + d * d * d * d;
    lhs >= rhs
}

fn w(x: u128) -> U1024 {
    U1024::from(x)
}

pub fn d_star3(r: [u128; 3], amp: u64) -> U1024 {
    d_star3_scaled(r, amp, 1)
}

/// D* of the reserves multiplied by `scale` (D is homogeneous of degree 1, so this is D* with
/// log10(scale) extra digits)
pub fn d_star3_scaled(r: [u128; 3], amp: u64, scale: u128) -> U1024 {
    if r.iter().any(|v| *v == 0) {
        return U1024::ZERO;
    }
    let x = [w(r[0]) * w(scale), w(r[1]) * w(scale), w(r[2]) * w(scale)];
    let ann = w(amp as u128 * 3);
    let mut lo = U1024::ZERO;
    let mut hi = x[0] + x[1] + x[2] + U1024::ONE;
    while hi - lo > U1024::ONE {
        let mid = (lo + hi) >> 1;
        if g3_nonneg(mid, x, ann) {
            lo = mid;
        } else {
            hi = mid;
        }
    }
    lo
}

/// smallest y with invariant(x_in, x_other, y; D) >= 0
pub fn y_star3(d: U1024, x_in: u128, x_other: u128, amp: u64, hi_hint: u128) -> U1024 {
    if d == U1024::ZERO {
        return U1024::ZERO;
    }
    let ann = w(amp as u128 * 3);
    let ok = |y: U1024| -> bool { g3_nonneg(d, [w(x_in), w(x_other), y], ann) };
    let mut hi = w(hi_hint).max(U1024::ONE);
    let mut guard = 0;
    while !ok(hi) && guard < 24 {
        hi = hi << 1;
        guard += 1;
    }
    let mut lo = U1024::ZERO;
    while hi - lo > U1024::ONE {
        let mid = (lo + hi) >> 1;
        if ok(mid) {
            hi = mid;
        } else {
            lo = mid;
        }
    }
    hi
}

/// emulation of the contract's integer Newton `compute_d` (only to recognise dust finding D15 exactly)
fn compute_d3_emulated(amp: u64, r: [u128; 3]) -> Option<U1024> {
    let sum = w(r[0]) + w(r[1]) + w(r[2]);
    if sum == U1024::ZERO {
        return Some(sum);
    }
    if r.iter().any(|v| *v == 0) {
        return None;
    }
    let ann = w(amp as u128 * 3);
    let three = U1024::from(3u32);
    let mut d = sum;
    for _ in 0..256 {
        let mut d_prod = d;
        for x in r {
            d_prod = d_prod * d / (w(x) * three);
        }
        let d_prev = d;
        let num = d * (d_prod * three + sum * ann);
        let den = d * (ann - U1024::ONE) + d_prod * U1024::from(4u32);
        if den == U1024::ZERO {
            return None;
        }
        d = num / den;
        let diff = if d > d_prev { d - d_prev } else { d_prev - d };
        if diff <= U1024::ONE {
            break;
        }
    }
    Some(d)
}

/// emulation of the contract's integer Newton `compute_y_raw` (only to recognise the solver's own
/// dust exactly in pools too small for the comparison with the independent curve)
fn compute_y3_emulated(amp: u64, swap_in: u128, no_swap: u128, d: U1024) -> Option<U1024> {
    if swap_in == 0 || no_swap == 0 || amp == 0 {
        return None;
    }
    let three = U1024::from(3u32);
    let ann = w(amp as u128 * 3);
    let mut c = d;
    c = c * d / (w(swap_in) * three);
    c = c * d / (w(no_swap) * three);
    c = c * d / (ann * three);
    let b = d / ann + w(swap_in) + w(no_swap);
    let mut y = d;
    for _ in 0..1000 {
        let y_prev = y;
        let num = y * y + c;
        let den2 = y * U1024::from(2u32) + b;
        if den2 <= d {
            return None;
        }
        y = num / (den2 - d);
        let diff = if y > y_prev { y - y_prev } else { y_prev - y };
        if diff <= U1024::ONE {
            break;
        }
    }
    Some(y)
}

/// gross output of a swap exactly as the contract's integer solvers compute it: reserve - y - 1
fn gross_emulated(amp: u64, reserves: [u128; 3], from: usize, to: usize, amount: u128) -> Option<u128> {
    let other = 3 - from - to;
    // the contract passes (source, destination, unswapped): the order matters for the integer divisions
    let d = compute_d3_emulated(amp, [reserves[from], reserves[to], reserves[other]])?;
    let y = compute_y3_emulated(amp, reserves[from].checked_add(amount)?, reserves[other], d)?;
    let rt = w(reserves[to]);
    if y + U1024::ONE > rt {
        return None;
    }
    let g = rt - y - U1024::ONE;
    let dg = g.digits();
    if dg[2..].iter().any(|x| *x != 0) {
        return None;
    }
    Some(dg[0] as u128 | ((dg[1] as u128) << 64))
}

impl Pool3 {
    pub fn user(&self, i: usize) -> &'static str {
        USERS[i % self.cfg.n_users]
    }
    fn asset(&self, i: usize, a: u128) -> Asset {
        Asset { info: self.assets[i].clone(), amount: Uint128::new(a) }
    }
    fn bal(&self, who: &str, i: usize) -> u128 {
        balance(&self.app, who, &self.assets[i])
    }
    fn funds_for(&self, parts: &[(usize, u128)]) -> Vec<Coin> {
        let mut v = vec![];
        for (i, a) in parts {
            if let AssetInfo::NativeToken { denom } = &self.assets[*i] {
                if *a > 0 {
                    v.push(coin(*a, denom));
                }
            }
        }
        v.sort_by(|a: &Coin, b: &Coin| a.denom.cmp(&b.denom));
        v
    }
    fn provide_msgs(&self, amounts: [u128; 3], slippage: Option<&str>) -> Vec<CosmosMsg> {
        let mut msgs = vec![];
        for i in 0..3 {
            if let AssetInfo::Token { contract_addr } = &self.assets[i] {
                if amounts[i] > 0 {
                    msgs.push(wasm_exec(contract_addr, &cw20::Cw20ExecuteMsg::IncreaseAllowance { spender: self.trio.clone(), amount: Uint128::new(amounts[i]), expires: None }, vec![]));
                }
            }
        }
        msgs.push(wasm_exec(
            &self.trio,
            &trio::ExecuteMsg::ProvideLiquidity {
                assets: {
                    const P: [[usize; 3]; 6] = [[0, 1, 2], [0, 2, 1], [1, 0, 2], [1, 2, 0], [2, 0, 1], [2, 1, 0]];
                    let o = P[(self.perm_next.get() % 6) as usize];
                    let mut v = [self.asset(o[0], amounts[o[0]]), self.asset(o[1], amounts[o[1]]), self.asset(o[2], amounts[o[2]])];
                    if self.perm_next.get() >= 6 && self.perm_next.get() < 12 {
                        // hostile: every native pool asset is declared as a cw20 token whose "address" is the denom
                        for a in v.iter_mut() {
                            if let AssetInfo::NativeToken { denom } = a.info.clone() {
                                a.info = AssetInfo::Token { contract_addr: denom };
                            }
                        }
                    }
                    v
                },
                slippage_tolerance: slippage.map(|s| Decimal::from_str(s).unwrap()),
                receiver: None,
            },
            match self.perm_next.get() {
                6..=11 => vec![],
                // hostile 12..17: every native coin attached with half the declared amount; 18..23: with more
                12..=17 => self.funds_for(&[(0, amounts[0] / 2), (1, amounts[1] / 2), (2, amounts[2] / 2)]),
                18..=23 => self.funds_for(&[(0, amounts[0].saturating_add(1 + amounts[0] / 3)), (1, amounts[1].saturating_add(1 + amounts[1] / 3)), (2, amounts[2].saturating_add(1 + amounts[2] / 3))]),
                _ => self.funds_for(&[(0, amounts[0]), (1, amounts[1]), (2, amounts[2])]),
            },
        ));
        msgs
    }
    fn swap_msg(&self, from: usize, to: usize, amount: u128, max_spread: Option<&str>, belief: Option<&str>) -> CosmosMsg {
        let ms = max_spread.map(|s| Decimal::from_str(s).unwrap());
        let bp = belief.map(|s| Decimal::from_str(s).unwrap());
        match &self.assets[from] {
            AssetInfo::NativeToken { denom } => wasm_exec(
                &self.trio,
                &trio::ExecuteMsg::Swap { offer_asset: self.asset(from, amount), ask_asset: self.assets[to].clone(), belief_price: bp, max_spread: ms, to: None },
                {
                    let mut f = if amount > 0 { vec![coin(amount, denom)] } else { vec![] };
                    if let Some((x, first)) = self.stray_next.get() {
                        if x > 0 {
                            f.push(coin(x, if first { "a0junk" } else { "zzjunk" }));
                            f.sort_by(|a: &Coin, b: &Coin| a.denom.cmp(&b.denom));
                        }
                    }
                    f
                },
            ),
            AssetInfo::Token { contract_addr } => wasm_exec(
                contract_addr,
                &cw20::Cw20ExecuteMsg::Send {
                    contract: self.trio.clone(),
                    amount: Uint128::new(amount),
                    msg: to_json_binary(&trio::Cw20HookMsg::Swap { ask_asset: self.assets[to].clone(), belief_price: bp, max_spread: ms, to: None }).unwrap(),
                },
                vec![],
            ),
        }
    }
    fn simulate(&self, from: usize, to: usize, amount: u128) -> Result<trio::SimulationResponse, String> {
        query(&self.app, &self.trio, &trio::QueryMsg::Simulation { offer_asset: self.asset(from, amount), ask_asset: self.asset(to, 0) })
    }
    /// amplification the documentation prescribes at the current height (linear, integer steps)
    fn amp_lin(&self) -> u64 {
        let h = height(&self.app);
        let m = &self.model;
        if h >= m.h1 || m.h1 <= m.h0 {
            return m.amp1;
        }
        let dt = (h - m.h0) as u128;
        let range = (m.h1 - m.h0) as u128;
        if m.amp1 >= m.amp0 {
            m.amp0 + ((m.amp1 - m.amp0) as u128 * dt / range) as u64
        } else {
            m.amp0 - ((m.amp0 - m.amp1) as u128 * dt / range) as u64
        }
    }
    pub fn observe(&self) -> Result<Obs, String> {
        let p: trio::PoolResponse = query(&self.app, &self.trio, &trio::QueryMsg::Pool {}).map_err(|e| format!("Pool query failed: {e}"))?;
        let f: trio::ProtocolFeesResponse = query(&self.app, &self.trio, &trio::QueryMsg::ProtocolFees { asset_id: None, all_time: Some(false) }).map_err(|e| format!("ProtocolFees failed: {e}"))?;
        let fa: trio::ProtocolFeesResponse = query(&self.app, &self.trio, &trio::QueryMsg::ProtocolFees { asset_id: None, all_time: Some(true) }).map_err(|e| format!("ProtocolFees(all) failed: {e}"))?;
        let fb: trio::ProtocolFeesResponse = query(&self.app, &self.trio, &trio::QueryMsg::BurnedFees { asset_id: None }).map_err(|e| format!("BurnedFees failed: {e}"))?;
        let pick = |v: &Vec<Asset>, i: usize| v.iter().find(|a| a.info == self.assets[i]).map(|a| a.amount.u128()).unwrap_or(0);
        let three = |who: &str| [self.bal(who, 0), self.bal(who, 1), self.bal(who, 2)];
        let n = self.cfg.n_users;
        let lpi = token(&self.lp);
        Ok(Obs {
            reserves: [pick(&p.assets, 0), pick(&p.assets, 1), pick(&p.assets, 2)],
            share: p.total_share.u128(),
            pending: [pick(&f.fees, 0), pick(&f.fees, 1), pick(&f.fees, 2)],
            all_time: [pick(&fa.fees, 0), pick(&fa.fees, 1), pick(&fa.fees, 2)],
            burned: [pick(&fb.fees, 0), pick(&fb.fees, 1), pick(&fb.fees, 2)],
            bal: three(&self.trio),
            collector: three(&self.collector_now),
            other_collector: three(if self.collector_now == COLLECTOR { COLLECTOR2 } else { COLLECTOR }),
            users: (0..n).map(|i| three(USERS[i])).collect(),
            users_lp: (0..n).map(|i| balance(&self.app, USERS[i], &lpi)).collect(),
            lp_pool: balance(&self.app, &self.trio, &lpi),
            supply: [supply(&self.app, &self.assets[0]), supply(&self.app, &self.assets[1]), supply(&self.app, &self.assets[2])],
        })
    }
    fn advance(&mut self, blocks: u64) {
        if blocks > 0 {
            let t = now_ns(&self.app) + 6_000_000_000 * blocks;
            let h = height(&self.app) + blocks;
            set_clock(&mut self.app, t, h);
            self.blocks += blocks;
        }
    }
}

fn obs_key(o: &Obs) -> String {
    format!("{:?}{}{:?}{:?}", o.reserves, o.share, o.pending, o.users_lp)
}

impl Scenario for Pool3 {
    const NAME: &'static str = "POOL3";
    type Cfg = Cfg;
    type Step = Step;

    fn gen_cfg(rng: &mut Rng, prop: &str, tier: Tier, _idx: u64) -> Cfg {
        let kind = |rng: &mut Rng| if rng.chance(1, 2) { Kind::Native } else { Kind::Cw20 };
        let mut weights = [12, 10, 40, 5, 6, 8, 6, 2];
        for w in weights.iter_mut().skip(3) {
            if rng.chance(1, 4) {
                *w = 0;
            }
        }
        if prop == "C07" {
            weights[3] = 12;
        }
        let cap = if tier == Tier::Thorough { 200 } else { 60 };
        let mut n = 6;
        while n < cap && !rng.chance(1, 22) {
            n += 1;
        }
        Cfg {
            kinds: [kind(rng), kind(rng), kind(rng)],
            amp: *rng.pick(&[1u64, 2, 10, 50, 100, 1000, 85, 1_000_000, 7, 400, 100_000]),
            fees: gen_fees(rng),
            user_funds: match rng.below(4) {
                0 => 10u128.pow(9),
                1 => 10u128.pow(14),
                2 => 10u128.pow(22),
                _ => 1u128 << 100,
            },
            n_users: rng.range(3, 5) as usize,
            max_steps: n,
            faults: rng.chance(1, 3),
            boundary: prop == "C15" || rng.chance(1, 5),
            weights,
        }
    }

    fn max_steps(cfg: &Cfg) -> usize {
        cfg.max_steps
    }

    fn build(cfg: &Cfg, _ctx: &mut Ctx) -> Self {
        let denoms = ["uaaa", "ubbb", "uccc"];
        let n = cfg.n_users;
        let mut bals: Vec<(&str, Vec<Coin>)> = vec![];
        for u in USERS.iter().take(n) {
            let mut cs = vec![coin(1_000_000, "ujunk"), coin(1_000_000, "a0junk"), coin(1_000_000, "zzjunk")];
            for i in 0..3 {
                if cfg.kinds[i] == Kind::Native {
                    cs.push(coin(cfg.user_funds, denoms[i]));
                }
            }
            bals.push((u, cs));
        }
        let mut oc = vec![];
        for i in 0..3 {
            if cfg.kinds[i] == Kind::Native {
                oc.push(coin(10, denoms[i]));
            }
        }
        bals.push((OWNER, oc));
        let mut app = new_app(&bals);
        let token_code = app.store_code(code::token());
        let pair_code = app.store_code(code::pair());
        let trio_code = app.store_code(code::trio());
        let factory_code = app.store_code(code::pool_factory());
        let factory = must_instantiate(&mut app, factory_code, OWNER, &factory::InstantiateMsg { pair_code_id: pair_code, trio_code_id: trio_code, token_code_id: token_code, fee_collector_addr: COLLECTOR.into() }, "factory", None);
        let mut assets = vec![];
        for i in 0..3 {
            match cfg.kinds[i] {
                Kind::Native => {
                    must_exec(&mut app, OWNER, &factory, &factory::ExecuteMsg::AddNativeTokenDecimals { denom: denoms[i].into(), decimals: 6 }, vec![coin(1, denoms[i])]);
                    assets.push(native(denoms[i]));
                }
                Kind::Cw20 => {
                    let b: Vec<(&str, u128)> = USERS.iter().take(n).map(|u| (*u, cfg.user_funds)).collect();
                    assets.push(token(&new_cw20(&mut app, token_code, &format!("TK{}", ["A", "B", "C"][i]), 6, OWNER, &b)));
                }
            }
        }
        let assets: [AssetInfo; 3] = [assets[0].clone(), assets[1].clone(), assets[2].clone()];
        must_exec(&mut app, OWNER, &factory, &factory::ExecuteMsg::CreateTrio { asset_infos: assets.clone(), pool_fees: pool_fee(&cfg.fees), amp_factor: cfg.amp, token_factory_lp: false }, vec![]);
        let ti: TrioInfo = query(&app, &factory, &factory::QueryMsg::Trio { asset_infos: assets.clone() }).expect("harness: trio info");
        let h = height(&app);
        Pool3 {
            cfg: cfg.clone(),
            app,
            assets,
            factory,
            trio: ti.contract_addr,
            lp: asset_id(&ti.liquidity_token),
            fee18: [dec_atomics(&cfg.fees[0]), dec_atomics(&cfg.fees[1]), dec_atomics(&cfg.fees[2])],
            blocks: 0,
            perm_next: std::cell::Cell::new(0),
            stray_next: std::cell::Cell::new(None),
            queue: vec![],
            model: Model { amp0: cfg.amp, amp1: cfg.amp, h0: h, h1: h, ..Default::default() },
            collector_now: COLLECTOR.to_string(),
        }
    }

    fn gen_step(&mut self, rng: &mut Rng, _ctx: &mut Ctx) -> Option<Step> {
        let actor = rng.idx(self.cfg.n_users);
        let who = self.user(actor);
        let adv = match rng.below(12) {
            0..=4 => 0,
            5..=7 => rng.range(1, 3),
            8 => 5_000,
            9 => 9_999,
            10 => 10_000,
            _ => rng.range(1, 30_000),
        };
        let o = self.observe().ok()?;
        let bal = [self.bal(who, 0), self.bal(who, 1), self.bal(who, 2)];
        let lp = o.users_lp[actor];
        if o.share == 0 {
            // first deposit: at least 10^4 base units each, roughly balanced, sometimes skewed
            let base = rng.range128(10_000, (bal[0].min(bal[1]).min(bal[2]) / 4).max(10_001));
            let sk = |rng: &mut Rng| *rng.pick(&[1u128, 1, 1, 2, 3, 10]);
            let amounts = [(base / sk(rng)).max(10_000), (base / sk(rng)).max(10_000), (base / sk(rng)).max(10_000)];
            return Some(Step { actor, op: Op::Provide { amounts, slippage: None, perm: 0 }, adv: 0, fault: Fault::None });
        }
        if !self.queue.is_empty() {
            return Some(self.queue.remove(0));
        }
        // everybody leaves (only the locked minimum liquidity stays), then somebody deposits again
        if rng.chance(1, 40) {
            let mut q = vec![];
            for (u, l) in o.users_lp.iter().enumerate() {
                if *l > 0 {
                    q.push(Step { actor: u, op: Op::Withdraw { lp: *l }, adv: 0, fault: Fault::None });
                }
            }
            if !q.is_empty() {
                _ctx.probe("exit_all_then_deposit_scripted");
                let d = |rng: &mut Rng, b: u128| match rng.below(4) { 0 => 1, 1 => 10_000, _ => rng.edge_amount(b / 2).max(1) };
                let amounts = [d(rng, bal[0]), d(rng, bal[1]), d(rng, bal[2])];
                q.push(Step { actor, op: Op::Provide { amounts, slippage: None, perm: 0 }, adv: 0, fault: Fault::None });
                self.queue = q;
                return Some(self.queue.remove(0));
            }
        }
        let mut fault = Fault::None;
        if self.cfg.faults && rng.chance(1, 10) {
            fault = match rng.below(6) { 0..=2 => Fault::SubCall(rng.range(2, 6) as u32), 3 | 4 => Fault::Bank(rng.range(1, 3) as u32), _ => Fault::Query(rng.range(1, 4) as u32) };
        }
        let k = rng.weighted(&self.cfg.weights);
        let op = match k {
            0 => {
                let d0 = rng.edge_amount(bal[0] / 2).max(1);
                let amounts = match rng.below(5) {
                    0 | 1 => [d0, muldiv128(d0, o.reserves[1], o.reserves[0].max(1)).unwrap_or(1).min(bal[1]).max(1), muldiv128(d0, o.reserves[2], o.reserves[0].max(1)).unwrap_or(1).min(bal[2]).max(1)],
                    2 => [d0, 1, 1],
                    3 => [1, rng.edge_amount(bal[1] / 2).max(1), 1],
                    _ => [d0, rng.edge_amount(bal[1] / 2).max(1), rng.edge_amount(bal[2] / 2).max(1)],
                };
                let slippage = if rng.chance(1, 4) { Some(atomics_to_dec(*rng.pick(&[0u128, E18 / 100, E18 / 2, E18, E18 + 1]))) } else { None };
                Op::Provide { amounts, slippage, perm: if rng.chance(1, 2) { 0 } else if rng.chance(1, 8) { 6 + rng.below(18) as u8 } else { rng.below(6) as u8 } }
            }
            1 if rng.chance(1, 8) => Op::WithdrawDirect { coin: rng.idx(4), amount: *rng.pick(&[1u128, 1000, 3000, 3001, 999_999]) },
            1 => Op::Withdraw { lp: if lp == 0 { rng.range128(0, 5) } else { match rng.below(4) { 0 => lp, 1 => 1, _ => rng.edge_amount(lp) } } },
            2 | 5 => {
                let from = rng.idx(3);
                let to = (from + 1 + rng.idx(2)) % 3;
                let amount = match rng.below(10) {
                    0 => 0,
                    1 => bal[from].saturating_add(1),
                    2 => rng.range128(1, o.reserves[from].max(1)).min(bal[from]).max(1),
                    _ => rng.edge_amount(bal[from].min(o.reserves[from].saturating_mul(4).max(1))).max(1),
                };
                if k == 5 {
                    Op::RoundTrip { from, to, amount }
                } else {
                    let (max_spread, belief) = if self.cfg.boundary {
                        let sim = self.simulate(from, to, amount).ok();
                        let g = sim.as_ref().map(|q| q.return_amount.u128().saturating_add(q.swap_fee_amount.u128()).saturating_add(q.protocol_fee_amount.u128()).saturating_add(q.burn_fee_amount.u128()));
                        let realised = sim.as_ref().zip(g).and_then(|(q, g)| {
                            let sp = q.spread_amount.u128();
                            if g == 0 && sp == 0 { None } else { to_u128_256(u256(sp) * u256(E18) / (u256(g) + u256(sp))) }
                        });
                        let mut c = vec![0u128, E18 / 2 - 1, E18 / 2, E18 / 2 + 1, E18, E18 / 100, E18 / 100 + 1];
                        if let Some(r) = realised { c.extend_from_slice(&[r.saturating_sub(1), r, r + 1, r + 2]); }
                        let ms = if rng.chance(1, 8) { None } else { Some(atomics_to_dec(*rng.pick(&c))) };
                        let belief = if rng.chance(1, 3) {
                            g.and_then(|g| if g == 0 || amount == 0 { None } else { to_u128_256(u256(amount) * u256(E18) / u256(g)) }).map(|p| atomics_to_dec(*rng.pick(&[p.saturating_sub(1), p, p.saturating_add(1), p / 2, p.saturating_mul(2), (p / 100).saturating_mul(99), (p / 100).saturating_mul(101)])))
                        } else { None };
                        (ms, belief)
                    } else {
                        (match rng.below(4) { 0 => None, 1 => Some("0.01".to_string()), _ => Some("0.5".to_string()) }, None)
                    };
                    if matches!(self.assets[from], AssetInfo::NativeToken { .. }) && rng.chance(1, 12) {
                        Op::SwapStray { from, to, amount, stray: *rng.pick(&[1u128, 7, 1000, 999_999]), first: rng.chance(2, 3) }
                    } else {
                        Op::Swap { from, to, amount, max_spread, belief }
                    }
                }
            }
            3 => Op::Collect,
            4 => {
                let cur = self.amp_lin();
                let h = height(&self.app);
                let future_a = match rng.below(12) {
                    0 => 0,
                    1 => 1_000_001,
                    2 => cur.saturating_mul(10),
                    3 => cur.saturating_mul(10).saturating_add(1),
                    4 => (cur / 10).max(1),
                    5 => (cur / 10).saturating_sub(1),
                    6 => cur / 20,
                    7 => cur,
                    8 => cur.saturating_sub(cur / 20).max(1),
                    9 => 1,
                    10 => 1_000_000,
                    _ => rng.range(1, (cur.saturating_mul(10)).min(1_000_000).max(1)),
                };
                let future_block = h + match rng.below(5) { 0 => MIN_RAMP_BLOCKS - 1, 1 => MIN_RAMP_BLOCKS, 2 => 0, _ => rng.range(MIN_RAMP_BLOCKS, 3 * MIN_RAMP_BLOCKS) };
                Op::Ramp { future_a, future_block }
            }
            6 => {
                let d0 = rng.edge_amount(bal[0] / 2).max(1);
                Op::DepositWithdraw { amounts: [d0, muldiv128(d0, o.reserves[1], o.reserves[0].max(1)).unwrap_or(1).min(bal[1]).max(1), muldiv128(d0, o.reserves[2], o.reserves[0].max(1)).unwrap_or(1).min(bal[2]).max(1)] }
            }
            _ if rng.chance(1, 4) => Op::SetCollector { second: rng.chance(1, 2) },
            _ if rng.chance(1, 3) => {
                // re-split the same total between the three fees
                let c = &self.cfg.fees;
                Op::SetFees { fees: if rng.chance(1, 2) { [c[1].clone(), c[2].clone(), c[0].clone()] } else { [c[2].clone(), c[0].clone(), c[1].clone()] } }
            }
            _ => Op::SetFees { fees: gen_fees(rng) },
        };
        let fault = match op { Op::Ramp { .. } | Op::RoundTrip { .. } | Op::DepositWithdraw { .. } | Op::SetFees { .. } | Op::SetCollector { .. } => Fault::None, _ => fault };
        Some(Step { actor, op, adv, fault })
    }

    fn apply(&mut self, step: &Step, ctx: &mut Ctx) {
        apply(self, step, ctx)
    }

    fn simplify(step: &Step) -> Vec<Step> {
        let mut out = vec![];
        if step.fault != Fault::None {
            out.push(Step { fault: Fault::None, ..step.clone() });
        }
        if step.adv != 0 {
            out.push(Step { adv: 0, ..step.clone() });
        }
        let shr = |x: u128| -> Vec<u128> { if x > 1 { vec![x / 2, x - 1] } else { vec![] } };
        match &step.op {
            Op::Swap { from, to, amount, max_spread, belief } => for a in shr(*amount) { out.push(Step { op: Op::Swap { from: *from, to: *to, amount: a, max_spread: max_spread.clone(), belief: belief.clone() }, ..step.clone() }); },
            Op::RoundTrip { from, to, amount } => for a in shr(*amount) { out.push(Step { op: Op::RoundTrip { from: *from, to: *to, amount: a }, ..step.clone() }); },
            Op::Withdraw { lp } => for a in shr(*lp) { out.push(Step { op: Op::Withdraw { lp: a }, ..step.clone() }); },
            Op::Provide { amounts, slippage, perm } => for i in 0..3 { for a in shr(amounts[i]) { let mut m = *amounts; m[i] = a; out.push(Step { op: Op::Provide { amounts: m, slippage: slippage.clone(), perm: *perm }, ..step.clone() }); } },
            Op::DepositWithdraw { amounts } => for i in 0..3 { for a in shr(amounts[i]) { let mut m = *amounts; m[i] = a; out.push(Step { op: Op::DepositWithdraw { amounts: m }, ..step.clone() }); } },
            _ => {}
        }
        out
    }

    fn sim_clock(&self) -> (u64, u64) {
        (self.blocks * 6_000_000_000, self.blocks)
    }
}

fn count_fault(ctx: &mut Ctx, fault: Fault, fired: bool) {
    if fired {
        ctx.fault(match fault { Fault::SubCall(_) => "F1_subcall", Fault::Bank(_) => "F2_bank", _ => "F3_query" });
    }
}

fn global_invariants(s: &mut Pool3, ctx: &mut Ctx, before: &Obs, after: &Obs, ok: bool, opname: &str) {
    ctx.eval("C04");
    for i in 0..3 {
        if u256(after.reserves[i]) + u256(after.pending[i]) > u256(after.bal[i]) {
            ctx.fail("C04", "solvency", "reserve_plus_fees_gt_balance", None, format!("{opname}: asset {i}: reserve {} + pending {} > balance {}", after.reserves[i], after.pending[i], after.bal[i]));
        }
    }
    if s.model.seeded && (after.lp_pool < s.model.locked || after.share < s.model.locked) {
        ctx.fail("C04", "min_liquidity_locked", "lp_of_pool", None, format!("{opname}: pool holds {} LP, supply {}", after.lp_pool, after.share));
    }
    ctx.eval("C07");
    for i in 0..3 {
        if after.pending[i] > after.bal[i] {
            ctx.fail("C07", "pending_fees_held", "pending_gt_balance", None, format!("{opname}: asset {i}: the pool owes {} of protocol fees but holds only {}", after.pending[i], after.bal[i]));
        }
    }
    for i in 0..3 {
        let expect = s.model.charged[i].saturating_sub(s.model.received[i]);
        if after.pending[i] != expect {
            ctx.fail("C07", "trio_pending_ledger", "pending_ne_charged_minus_received", None, format!("{opname}: asset {i}: pending {} != charged {} - received {}", after.pending[i], s.model.charged[i], s.model.received[i]));
        }
        if after.all_time[i] != s.model.charged[i] || after.burned[i] != s.model.burned[i] {
            ctx.fail("C07", "trio_all_time_counters", "ne_sums", None, format!("{opname}: asset {i}: all_time {} burned {} vs charged {} burned {}", after.all_time[i], after.burned[i], s.model.charged[i], s.model.burned[i]));
        }
    }
    if !ok && (obs_key(before) != obs_key(after) || before.supply != after.supply || before.bal != after.bal) {
        ctx.fail("C04", "failed_tx_no_effect", opname, None, format!("{opname}: state changed by a failed tx"));
    }
    if opname != "set_collector" && before.other_collector != after.other_collector {
        ctx.fail("C07", "nothing_else_moves", "unconfigured_collector_paid", None, format!("{opname}: the balances of a collector address the pool is not configured with changed {:?} -> {:?}", before.other_collector, after.other_collector));
    }
}

/// D*_after(with `slack` added to reserve `slack_idx`) * S_before >= D*_before * S_after
fn d_per_lp_ok(amp: u64, before: &Obs, after: &Obs, slack: Option<(usize, u128)>) -> (bool, U1024, U1024) {
    d_per_lp_ok2(amp, before, after, slack, 0)
}

/// `d_slack`: whole base units of D the implementation's solver is entitled to (its Newton
/// iteration stops at |step| <= 1 and the result is floored)
fn d_per_lp_ok2(amp: u64, before: &Obs, after: &Obs, slack: Option<(usize, u128)>, d_slack: u128) -> (bool, U1024, U1024) {
    let mut ra = after.reserves;
    if let Some((i, v)) = slack {
        ra[i] = ra[i].saturating_add(v);
    }
    // nine extra digits; the floor of the "after" side is given its full unit of benefit of doubt
    let db = d_star3_scaled(before.reserves, amp, 1_000_000_000);
    let da = d_star3_scaled(ra, amp, 1_000_000_000);
    ((da + U1024::ONE + w(d_slack) * w(1_000_000_000)) * w(before.share) >= db * w(after.share), db, da)
}

struct SwapDone {
    /// Some(true): the leg was compared with the independent curve and lies within the solver
    /// dust (2 units of D, 2 base units of the ask asset); Some(false): it does not; None: the
    /// comparison did not apply (a reserve below 10^4)
    curve_ok: Option<bool>,
    /// the gross output is exactly what an emulation of the contract's own integer solvers gives
    emul_ok: bool,
    ret: u128,
}

/// D18: in an extremely imbalanced pool (largest reserve more than 10^4 times the smallest) the
/// contract's integer Newton solver loses precision; the resulting error is bounded here by
/// 10^-5 of the reserve of the asset concerned. Returns that allowance (0 for ordinary pools).
fn imbalance_dust(reserves: &[u128; 3], asset: usize) -> u128 {
    let rmax = *reserves.iter().max().unwrap();
    let rmin = *reserves.iter().min().unwrap();
    if rmax / rmin.max(1) > 10_000 {
        reserves[asset] / 100_000 + 8
    } else {
        0
    }
}

#[allow(clippy::too_many_arguments)]
fn do_swap(s: &mut Pool3, ctx: &mut Ctx, actor: usize, from: usize, to: usize, amount: u128, max_spread: &Option<String>, belief: &Option<String>, fault: Fault, opname: &str) -> Option<SwapDone> {
    if from > 2 || to > 2 || from == to {
        return None;
    }
    let who = s.user(actor);
    let other = 3 - from - to;
    let before = match s.observe() { Ok(o) => o, Err(e) => { ctx.fail("C04", "solvency", "queries_fail", None, e); return None; } };
    let quote = s.simulate(from, to, amount);
    let amp = s.amp_lin();
    let msg = s.swap_msg(from, to, amount, max_spread.as_deref(), belief.as_deref());
    let r = tx(&mut s.app, who, vec![msg], fault);
    ctx.op(opname, r.outcome.kind());
    count_fault(ctx, fault, r.fault_fired);
    let after = match s.observe() { Ok(o) => o, Err(e) => { ctx.fail("C04", "solvency", "queries_fail", None, format!("after {opname}: {e}")); return None; } };
    ctx.trace(&format!("{opname}:{}:{amount}:{:?}", r.outcome.kind(), after.reserves));
    let verdict = quote.as_ref().ok().map(|q| {
        let g = q.return_amount.u128().saturating_add(q.swap_fee_amount.u128()).saturating_add(q.protocol_fee_amount.u128()).saturating_add(q.burn_fee_amount.u128());
        (g, q.spread_amount.u128(), crate::scen::pool2_oracle::swap_slippage_verdict(amount, g, q.spread_amount.u128(), belief, max_spread))
    });
    if !r.outcome.is_ok() {
        let e = r.outcome.err_text();
        if e.contains("Spread limit exceeded") {
            if let Some((g, sp, v)) = verdict {
                ctx.eval("C15");
                ctx.probe("trio_swap_rejected_for_slippage");
                if v == crate::scen::pool2_oracle::Slip::MustAccept {
                    ctx.fail("C15", "trio_swap_rejected_within_limit", if belief.is_some() { "belief" } else { "spread" }, None,
                        format!("3-pool swap rejected for slippage: offer {amount} gross {g} spread {sp} belief {belief:?} max_spread {max_spread:?}"));
                }
            }
        }
        global_invariants(s, ctx, &before, &after, false, opname);
        return None;
    }
    if let (Some((g, sp, v)), true) = (verdict, amount >= 1) {
        ctx.eval("C15");
        if v == crate::scen::pool2_oracle::Slip::MustReject {
            ctx.fail("C15", "trio_swap_accepted_beyond_limit", if belief.is_some() { "belief" } else { "spread" }, None,
                format!("3-pool swap accepted: offer {amount} gross {g} spread {sp} belief {belief:?} max_spread {max_spread:?}"));
        }
        // the reported spread is the loss against a 1:1 conversion
        let want = if amount > g { amount - g } else { g - amount };
        if sp != want {
            ctx.fail("C15", "trio_spread_meaning", "reported_spread_off", None, format!("offer {amount} gross {g}: reported spread {sp}, |offer - gross| = {want}"));
        }
    }
    if r.fault_fired {
        ctx.fail("C04", "fault_swallowed", opname, None, "swap succeeded although a sub-call failed".into());
    }
    let Ok(q) = quote else {
        ctx.fail("C14", "quote_exists", "trio_swap_ok_sim_fails", None, "3-pool swap succeeded but Simulation failed".into());
        global_invariants(s, ctx, &before, &after, true, opname);
        return None;
    };
    let (ret, prot, burn, swapf) = (q.return_amount.u128(), q.protocol_fee_amount.u128(), q.burn_fee_amount.u128(), q.swap_fee_amount.u128());
    let gross = ret.saturating_add(prot).saturating_add(burn).saturating_add(swapf);
    // C14: attributes + deltas
    ctx.eval("C14");
    let at = |k: &str| r.outcome.attr(k).and_then(|x| x.parse::<u128>().ok());
    for (k, v) in [("return_amount", ret), ("spread_amount", q.spread_amount.u128()), ("swap_fee_amount", swapf), ("protocol_fee_amount", prot), ("burn_fee_amount", burn)] {
        if at(k) != Some(v) {
            ctx.fail("C14", "trio_sim_eq_exec_attrs", k, None, format!("3-pool swap attr {k} = {:?}, Simulation said {v}", at(k)));
        }
    }
    let mut exp = before.users.clone();
    exp[actor][from] = exp[actor][from].saturating_sub(amount);
    exp[actor][to] = exp[actor][to].saturating_add(ret);
    if exp != after.users || after.bal[from] != before.bal[from].saturating_add(amount) || after.bal[to].saturating_add(ret).saturating_add(burn) != before.bal[to] || after.bal[other] != before.bal[other] {
        ctx.fail("C14", "trio_sim_eq_exec_transfers", "deltas", None, format!("3-pool swap {amount} {from}->{to}: quote return {ret} burn {burn}; pool {:?} -> {:?}", before.bal, after.bal));
    }
    if after.pending[to] != before.pending[to].saturating_add(prot) {
        ctx.fail("C14", "trio_sim_eq_exec_ledger", "protocol_fee", None, format!("pending {:?} -> {:?}, quoted protocol fee {prot}", before.pending, after.pending));
    }
    // C07 bookkeeping
    s.model.charged[to] = s.model.charged[to].saturating_add(prot);
    s.model.burned[to] = s.model.burned[to].saturating_add(burn);
    ctx.eval("C07");
    if after.supply[to].saturating_add(burn) != before.supply[to] || before.collector != after.collector {
        ctx.fail("C07", "trio_burn_leaves_circulation", "supply_delta", None, format!("supply {:?} -> {:?} burn {burn}", before.supply, after.supply));
    }
    // C04: fee split exact on the curve output
    ctx.eval("C04");
    let f = [fee_of(s.fee18[0], gross), fee_of(s.fee18[1], gross), fee_of(s.fee18[2], gross)];
    if [prot, swapf, burn] != f {
        ctx.fail("C04", "fee_exact", "fee_ne_floor_share_gross", None, format!("gross {gross}: fees {:?} expected {:?}", [prot, swapf, burn], f));
    }
    // C04: gross within the slope box of the independent curve at the documented amplification
    let mut curve_ok: Option<bool> = None;
    if ctx.on("C04") && before.reserves.iter().all(|v| *v >= 10_000) {
        let x_new = before.reserves[from].saturating_add(amount);
        let mut ok_any = false;
        let mut detail = String::new();
        let mut worst_short: U1024 = U1024::ZERO;
        for a in [amp, amp.saturating_sub(1).max(1), amp.saturating_add(1)] {
            let d = d_star3(before.reserves, a);
            let y0 = y_star3(d, x_new, before.reserves[other], a, before.reserves[to].saturating_add(1));
            let dlo = if d > U1024::from(2u32) { d - U1024::from(2u32) } else { U1024::ZERO };
            let y1 = y_star3(dlo, x_new, before.reserves[other], a, before.reserves[to].saturating_add(1));
            let tol = (if y0 > y1 { y0 - y1 } else { U1024::ZERO }) + U1024::from(2u32);
            // both what was quoted and what the pool really reports afterwards must respect the curve
            let reserve_after = w(before.reserves[to].saturating_sub(gross).min(after.reserves[to]));
            // not more than dust below the curve; and, while the pool is not extremely imbalanced
            // (where the integer solver loses precision in the pool's favour), not far above it
            // either: a wrong effective amplification shows up as a deviation in either direction
            let rmax = *before.reserves.iter().max().unwrap();
            let rmin = *before.reserves.iter().min().unwrap();
            let upper_ok = if rmax / rmin.max(1) <= 100 {
                reserve_after <= y0 + tol + tol + U1024::from(2u32) + w(gross / 100_000)
            } else {
                true
            };
            if reserve_after + tol >= y0 && upper_ok {
                ok_any = true;
                break;
            }
            if a == amp {
                detail = format!("curve point {y0} (tol {tol}), reserve after {reserve_after}");
                if reserve_after + tol < y0 { worst_short = y0 - reserve_after - tol; }
            }
        }
        curve_ok = Some(ok_any);
        if !ok_any {
            let allow = imbalance_dust(&before.reserves, to);
            let known = if allow > 0 && worst_short <= w(allow) { Some("D18") } else { None };
            ctx.fail("C04", "swap_on_curve", "outside_slope_box", known,
                format!("amp {amp} reserves {:?} swap {amount} {from}->{to} gross {gross}: {detail}", before.reserves));
        }
        ctx.probe("trio_swap_curve_checked");
    }
    // C04: D per LP monotone for swaps (2 base units of slack on the ask side)
    if ctx.on("C04") && before.share > 0 && before.reserves.iter().all(|v| *v >= 10_000) {
        let (ok, db, da) = d_per_lp_ok2(amp, &before, &after, Some((to, 2)), 2);
        if !ok {
            let allow = imbalance_dust(&before.reserves, to);
            let known = if allow > 0 && d_per_lp_ok2(amp, &before, &after, Some((to, 2 + allow)), 2).0 { Some("D18") } else { None };
            ctx.fail("C04", "d_per_lp_monotone", "swap", known, format!("swap {amount} {from}->{to}: D*x1e9 {db} -> {da} (beyond 2 base units of the ask asset and 2 units of D), reserves {:?} -> {:?}", before.reserves, after.reserves));
        }
    }
    ctx.state_of(&obs_key(&after));
    global_invariants(s, ctx, &before, &after, true, opname);
    for u in 0..before.users.len() {
        if u != actor && (before.users[u] != after.users[u] || before.users_lp[u] != after.users_lp[u]) {
            ctx.fail("C14", "third_party_untouched", opname, None, format!("user {u} changed"));
        }
    }
    let emul_ok = gross_emulated(amp, before.reserves, from, to, amount) == Some(gross);
    Some(SwapDone { ret, curve_ok, emul_ok })
}

fn do_provide(s: &mut Pool3, ctx: &mut Ctx, actor: usize, amounts: [u128; 3], slippage: &Option<String>, fault: Fault, opname: &str) -> bool {
    let who = s.user(actor);
    let before = match s.observe() { Ok(o) => o, Err(e) => { ctx.fail("C04", "solvency", "queries_fail", None, e); return false; } };
    let amp = s.amp_lin();
    let msgs = s.provide_msgs(amounts, slippage.as_deref());
    let r = tx(&mut s.app, who, msgs, fault);
    ctx.op(opname, r.outcome.kind());
    count_fault(ctx, fault, r.fault_fired);
    let after = match s.observe() { Ok(o) => o, Err(e) => { ctx.fail("C04", "solvency", "queries_fail", None, format!("after {opname}: {e}")); return false; } };
    ctx.trace(&format!("{opname}:{}:{:?}:{}", r.outcome.kind(), after.reserves, after.share));
    let ok = r.outcome.is_ok();
    if let (Some(t), true) = (slippage, before.share > 0) {
        use crate::scen::pool2_oracle::{stable_deposit_verdict, Slip};
        let sp = u256(before.reserves[0]) + u256(before.reserves[1]) + u256(before.reserves[2]);
        let sd = u256(amounts[0]) + u256(amounts[1]) + u256(amounts[2]);
        let t18 = dec_atomics(t);
        if ok {
            ctx.eval("C15");
            let minted = after.share.saturating_sub(before.share);
            if stable_deposit_verdict(sp, before.share, sd, minted, t18) == Slip::MustReject {
                ctx.fail("C15", "trio_deposit_accepted_beyond_tolerance", "deposit", None, format!("3-pool deposit {:?} into {:?} (S {}) minted {minted} accepted with slippage_tolerance {t}", amounts, before.reserves, before.share));
            }
        } else if r.outcome.err_text().contains("slippage_tolerance cannot bigger than 1") && t18 <= E18 {
            // a tolerance inside [0, 1] is a valid request; refusing it as out of range rejects a request
            // within the limits
            ctx.eval("C15");
            ctx.fail("C15", "trio_deposit_rejected_within_tolerance", "valid_tolerance_refused_as_out_of_range", None, format!("3-pool deposit with slippage_tolerance {t} (<= 1) was refused as 'cannot bigger than 1'"));
        } else if r.outcome.err_text().contains("Slippage tolerance exceeded") && t18 <= E18 {
            ctx.eval("C15");
            ctx.probe("trio_deposit_rejected_for_slippage");
            let d0 = compute_d3_emulated(amp, before.reserves);
            let d1 = compute_d3_emulated(amp, [before.reserves[0].saturating_add(amounts[0]), before.reserves[1].saturating_add(amounts[1]), before.reserves[2].saturating_add(amounts[2])]);
            if let (Some(d0), Some(d1)) = (d0, d1) {
                if d1 > d0 && d0 > U1024::ZERO {
                    let m = w(before.share) * (d1 - d0) / d0;
                    if m <= w(u128::MAX / 2) {
                        let m = m.digits()[0] as u128 | ((m.digits()[1] as u128) << 64);
                        if [m.saturating_sub(1).max(1), m, m + 1].iter().all(|mm| stable_deposit_verdict(sp, before.share, sd, *mm, t18) == Slip::MustAccept) {
                            ctx.fail("C15", "trio_deposit_rejected_within_tolerance", "deposit", None, format!("3-pool deposit {:?} into {:?} (S {}) would mint {m}; rejected with slippage_tolerance {t}", amounts, before.reserves, before.share));
                        }
                    }
                }
            }
        }
    }
    if ok {
        ctx.eval("C04");
        if r.fault_fired {
            ctx.fail("C04", "fault_swallowed", opname, None, "deposit succeeded although a sub-call failed".into());
        }
        let minted = after.share.saturating_sub(before.share);
        for i in 0..3 {
            // (a deposit sent with more than it declares, perm 18..23: what the pool keeps beyond the credited
            // amount is the sender's loss, not the pool's; only "received less than credited" is reported)
            let surplus_mode = s.perm_next.get() >= 18;
            if (!surplus_mode && after.bal[i] != before.bal[i].saturating_add(amounts[i])) || after.bal[i] < before.bal[i].saturating_add(amounts[i]) {
                ctx.fail("C04", "deposit_funds_received", opname, None, format!("asset {i}: pool {} -> {} for deposit {}", before.bal[i], after.bal[i], amounts[i]));
            }
        }
        if before.share == 0 {
            s.model.seeded = true;
            s.model.locked = after.lp_pool.min(3000);
            if after.lp_pool < 1000 {
                ctx.fail("C04", "min_liquidity_locked", "first_deposit", None, format!("first deposit locked {}", after.lp_pool));
            }
        } else if ctx.on("C04") && before.reserves.iter().all(|v| *v >= 10_000) {
            let (okd, db, da) = d_per_lp_ok(amp, &before, &after, None);
            if !okd {
                // D15: recognise the solver-termination dust exactly
                let d0 = compute_d3_emulated(amp, before.reserves);
                let d1 = compute_d3_emulated(amp, [before.reserves[0].saturating_add(amounts[0]), before.reserves[1].saturating_add(amounts[1]), before.reserves[2].saturating_add(amounts[2])]);
                let lhs = da * w(before.share);
                let rhs = db * w(after.share);
                let mut known = None;
                if let (Some(d0), Some(d1)) = (d0, d1) {
                    // dust: below 1 ppm, or an excess mint of a few LP units (solver error E<=4 units of D
                    // turns into at most E*(1 + D1/D0) LP units)
                    let exact_mint = if db > U1024::ZERO && da > db { w(before.share) * (da - db) / db } else { U1024::ZERO };
                    let ratio = if db > U1024::ZERO { da / db + U1024::ONE } else { U1024::ONE };
                    let small = (rhs - lhs) * U1024::from(1_000_000u32) < rhs || w(minted) <= exact_mint + U1024::from(4u32) * (U1024::ONE + ratio);
                    let emu = d1 > d0 && d0 > U1024::ZERO && w(before.share) * (d1 - d0) / d0 == w(minted);
                    if emu && small {
                        known = Some("D15");
                    } else if emu && (imbalance_dust(&before.reserves, 0) > 0 || imbalance_dust(&after.reserves, 0) > 0) && (rhs - lhs) * U1024::from(10_000u32) < rhs {
                        // (the solver call that loses precision is the one over the POST-deposit reserves: a one-sided
                        // deposit that itself makes the pool extremely imbalanced is the same case)
                        known = Some("D18");
                    }
                }
                ctx.fail("C04", "d_per_lp_monotone", "deposit", known,
                    format!("deposit {:?} at amp {amp}: reserves {:?} S {} -> {:?} S {}; exact D {db} -> {da}", amounts, before.reserves, before.share, after.reserves, after.share));
            }
        }
        // C07: owed protocol fees are not LP reserves on the deposit path, however the depositor lists
        // the assets. The mint of the contract's own integer solvers over the reserves net of owed fees
        // is S * (D1 - D0) / D0; a different mint that is exactly what the same computation gives when
        // the owed fees are attached to the wrong assets (or to none) shows fees being treated as reserves
        if before.share > 0 && before.pending.iter().any(|p| *p > 0) {
            ctx.eval("C07");
            ctx.probe("trio_deposit_with_fees_pending");
            let mint_for = |r: [u128; 3]| -> Option<U1024> {
                let d0 = compute_d3_emulated(amp, r)?;
                let d1 = compute_d3_emulated(amp, [r[0].saturating_add(amounts[0]), r[1].saturating_add(amounts[1]), r[2].saturating_add(amounts[2])])?;
                if d1 > d0 && d0 > U1024::ZERO { Some(w(before.share) * (d1 - d0) / d0) } else { None }
            };
            if let Some(expect) = mint_for(before.reserves) {
                if expect != w(minted) {
                    const PERMS: [[usize; 3]; 5] = [[0, 2, 1], [1, 0, 2], [1, 2, 0], [2, 0, 1], [2, 1, 0]];
                    let gross = [before.reserves[0].saturating_add(before.pending[0]), before.reserves[1].saturating_add(before.pending[1]), before.reserves[2].saturating_add(before.pending[2])];
                    let mut alts: Vec<[u128; 3]> = vec![gross];
                    for pm in PERMS {
                        // asset i is netted by the fee owed in asset pm[i]
                        let mut r = [0u128; 3];
                        let mut okp = true;
                        for i in 0..3 {
                            match gross[i].checked_sub(before.pending[pm[i]]) {
                                Some(v) => r[i] = v,
                                None => okp = false,
                            }
                        }
                        if okp {
                            alts.push(r);
                        }
                    }
                    for r in alts {
                        if r != before.reserves && mint_for(r) == Some(w(minted)) {
                            ctx.fail("C07", "deposit_priced_on_reserves_net_of_fees", "owed_fees_attached_to_wrong_assets", None,
                                format!("deposit {:?} (listing order {}) into reserves {:?} with owed fees {:?} S {}: minted {minted}; the reserves net of the owed fees give {expect}, netting as {:?} gives exactly the minted amount", amounts, s.perm_next.get(), before.reserves, before.pending, before.share, r));
                            break;
                        }
                    }
                }
            }
        }
        ctx.state_of(&obs_key(&after));
    }
    global_invariants(s, ctx, &before, &after, ok, opname);
    ok
}

fn do_withdraw(s: &mut Pool3, ctx: &mut Ctx, actor: usize, lp: u128, fault: Fault, opname: &str) -> bool {
    let who = s.user(actor);
    let before = match s.observe() { Ok(o) => o, Err(e) => { ctx.fail("C04", "solvency", "queries_fail", None, e); return false; } };
    let amp = s.amp_lin();
    let msg = wasm_exec(&s.lp, &cw20::Cw20ExecuteMsg::Send { contract: s.trio.clone(), amount: Uint128::new(lp), msg: to_json_binary(&trio::Cw20HookMsg::WithdrawLiquidity {}).unwrap() }, vec![]);
    let r = tx(&mut s.app, who, vec![msg], fault);
    ctx.op(opname, r.outcome.kind());
    count_fault(ctx, fault, r.fault_fired);
    let after = match s.observe() { Ok(o) => o, Err(e) => { ctx.fail("C04", "solvency", "queries_fail", None, format!("after {opname}: {e}")); return false; } };
    ctx.trace(&format!("{opname}:{}:{:?}:{}", r.outcome.kind(), after.reserves, after.share));
    let ok = r.outcome.is_ok();
    if ok {
        ctx.eval("C04");
        if r.fault_fired {
            ctx.fail("C04", "fault_swallowed", opname, None, "withdrawal succeeded although a sub-call failed".into());
        }
        for i in 0..3 {
            let paid = after.users[actor][i].saturating_sub(before.users[actor][i]);
            let cap = muldiv(before.reserves[i], lp, before.share.max(1));
            if u256(paid) > cap || before.bal[i].saturating_sub(after.bal[i]) != paid {
                ctx.fail("C04", "withdraw_pro_rata", "over_pay", None, format!("withdraw {lp}/{}: asset {i} paid {paid} > {cap}", before.share));
            }
        }
        if before.share.saturating_sub(after.share) != lp {
            ctx.fail("C04", "withdraw_burns_lp", opname, None, format!("supply {} -> {} for {lp}", before.share, after.share));
        }
        if ctx.on("C04") && after.share > 0 && before.reserves.iter().all(|v| *v >= 10_000) && after.reserves.iter().all(|v| *v >= 1) {
            let (okd, db, da) = d_per_lp_ok(amp, &before, &after, None);
            if !okd {
                ctx.fail("C04", "d_per_lp_monotone", "withdraw", None, format!("withdraw {lp}: exact D {db} -> {da}, S {} -> {}", before.share, after.share));
            }
        }
        ctx.state_of(&obs_key(&after));
    }
    global_invariants(s, ctx, &before, &after, ok, opname);
    ok
}

pub fn apply(s: &mut Pool3, step: &Step, ctx: &mut Ctx) {
    s.advance(step.adv);
    let actor = step.actor % s.cfg.n_users;
    let who = s.user(actor);
    match &step.op {
        Op::SwapStray { from, to, amount, stray, first } => {
            ctx.probe("swap_with_a_stray_coin_attached");
            let have = s.app.wrap().query_balance(s.user(actor), if *first { "a0junk" } else { "zzjunk" }).map(|c| c.amount.u128()).unwrap_or(0);
            s.stray_next.set(Some(((*stray).min(have), *first)));
            do_swap(s, ctx, actor, *from, *to, *amount, &Some("0.5".to_string()), &None, step.fault, "swap_with_stray_coin");
            s.stray_next.set(None);
        }
        Op::Swap { from, to, amount, max_spread, belief } => {
            do_swap(s, ctx, actor, *from, *to, *amount, max_spread, belief, step.fault, "swap");
        }
        Op::RoundTrip { from, to, amount } => {
            if *from > 2 || *to > 2 || from == to {
                return;
            }
            let ms = Some("0.5".to_string());
            let b0 = s.bal(who, *from);
            if let Some(d1) = do_swap(s, ctx, actor, *from, *to, *amount, &ms, &None, Fault::None, "roundtrip_out") {
                if ctx.stopped() || d1.ret == 0 {
                    return;
                }
                if let Some(d2) = do_swap(s, ctx, actor, *to, *from, d1.ret, &ms, &None, Fault::None, "roundtrip_back") {
                    ctx.eval("C04");
                    ctx.probe("roundtrip_completed");
                    let b2 = s.bal(who, *from);
                    if d2.ret > *amount || b2 > b0 {
                        let profit = d2.ret.saturating_sub(*amount);
                                                let r_now = s.observe().map(|o| o.reserves).unwrap_or([0; 3]);
                        let allow = imbalance_dust(&r_now, *from);
                        // D14: each leg may exceed the exact curve by the solver dust (D solved to
                        // within 2 units, y to within 2 base units of the ask asset). Both legs were
                        // compared with the independent curve inside do_swap: when both lie within
                        // that dust the curve itself is path independent, so the whole profit is the
                        // dust of one leg valued at the pool's price (in a skewed pool one unit of
                        // the scarce asset is worth many of the abundant one). Where the comparison
                        // did not apply (a reserve below 10^4) the bound is 4 base units.
                        // In a pool too small for that comparison (a reserve below 10^4, where integer
                        // effects dominate) a leg counts as explained when its output is exactly what an
                        // emulation of the contract's own integer Newton solvers gives.
                        let leg_ok = |d: &SwapDone| d.curve_ok == Some(true) || (d.curve_ok.is_none() && d.emul_ok);
                        let known = if leg_ok(&d1) && leg_ok(&d2) { Some("D14") } else if allow > 0 && profit <= allow { Some("D18") } else { None };
                        ctx.fail("C04", "there_and_back", "profit", known, format!("amp {} fees {:?}: {amount} of {from} -> {} of {to} -> {} of {from} (profit {profit}; legs vs curve {:?}/{:?}, vs solver emulation {}/{})", s.amp_lin(), s.cfg.fees, d1.ret, d2.ret, d1.curve_ok, d2.curve_ok, d1.emul_ok, d2.emul_ok));
                    }
                }
            }
        }
        Op::Provide { amounts, slippage, perm } => {
            s.perm_next.set(*perm);
            if *perm % 6 != 0 { ctx.probe("provide_assets_listed_in_other_order"); }
            do_provide(s, ctx, actor, *amounts, slippage, step.fault, "provide");
            s.perm_next.set(0);
        }
        Op::DepositWithdraw { amounts } => {
            let lp0 = balance(&s.app, who, &token(&s.lp));
            if do_provide(s, ctx, actor, *amounts, &None, Fault::None, "depwd_deposit") && !ctx.stopped() {
                let minted = balance(&s.app, who, &token(&s.lp)).saturating_sub(lp0);
                if minted > 0 && do_withdraw(s, ctx, actor, minted, Fault::None, "depwd_withdraw") {
                    ctx.probe("deposit_withdraw_completed");
                }
            }
        }
        Op::Withdraw { lp } => {
            do_withdraw(s, ctx, actor, *lp, step.fault, "withdraw");
        }
        Op::WithdrawDirect { coin, amount } => {
            let denom = ["uaaa", "ubbb", "uccc", "ujunk"][*coin % 4];
            let before = match s.observe() { Ok(o) => o, Err(e) => { ctx.fail("C04", "solvency", "queries_fail", None, e); return; } };
            let r = tx(&mut s.app, who, vec![wasm_exec(&s.trio, &trio::ExecuteMsg::WithdrawLiquidity {}, vec![cosmwasm_std::coin(*amount, denom)])], Fault::None);
            ctx.op("withdraw_direct_with_coin", r.outcome.kind());
            let after = match s.observe() { Ok(o) => o, Err(e) => { ctx.fail("C04", "solvency", "queries_fail", None, e); return; } };
            ctx.trace(&format!("withdraw_direct:{}:{:?}", r.outcome.kind(), after.reserves));
            if r.outcome.is_ok() {
                ctx.eval("C04");
                ctx.fail("C04", "withdraw_needs_lp", "native_coin_accepted_as_lp", None, format!("WithdrawLiquidity {{}} with {amount}{denom} attached succeeded on a cw20-LP 3-pool; reserves {:?} -> {:?}", before.reserves, after.reserves));
            }
            global_invariants(s, ctx, &before, &after, r.outcome.is_ok(), "withdraw_direct_with_coin");
        }
        Op::Collect => {
            let before = match s.observe() { Ok(o) => o, Err(e) => { ctx.fail("C04", "solvency", "queries_fail", None, e); return; } };
            let r = tx(&mut s.app, who, vec![wasm_exec(&s.trio, &trio::ExecuteMsg::CollectProtocolFees {}, vec![])], step.fault);
            ctx.op("collect", r.outcome.kind());
            count_fault(ctx, step.fault, r.fault_fired);
            let after = match s.observe() { Ok(o) => o, Err(e) => { ctx.fail("C04", "solvency", "queries_fail", None, e); return; } };
            ctx.trace(&format!("collect:{}:{:?}", r.outcome.kind(), after.pending));
            if r.outcome.is_ok() {
                ctx.eval("C07");
                if r.fault_fired {
                    ctx.fail("C07", "fault_swallowed", "trio_collect", None, "3-pool collection succeeded although a transfer failed".into());
                }
                for i in 0..3 {
                    let got = after.collector[i].saturating_sub(before.collector[i]);
                    let left = before.bal[i].saturating_sub(after.bal[i]);
                    s.model.received[i] = s.model.received[i].saturating_add(got);
                    let p = before.pending[i];
                    if p == 0 { ctx.probe("collect_pending_zero"); } else if p <= 1000 { ctx.probe("collect_below_threshold"); } else { ctx.probe("collect_above_threshold"); }
                    let stays = p <= 1000 && got == 0 && left == 0 && after.pending[i] == p;
                    if (got != p || left != p) && !stays {
                        let d5 = p > 0 && p <= 1000 && got == 0 && left == 0 && after.pending[i] == 0;
                        ctx.fail("C07", "trio_collect_transfers_pending", "collector_got_ne_pending", if d5 { Some("D5") } else { None }, format!("3-pool collect: asset {i} pending {p}, collector +{got}, pool -{left}, pending after {}", after.pending[i]));
                    }
                    if after.reserves[i] != before.reserves[i] {
                        ctx.fail("C07", "trio_collect_keeps_reserves", "reserves_changed", None, format!("asset {i}: {} -> {}", before.reserves[i], after.reserves[i]));
                    }
                }
                if after.share != before.share || after.supply != before.supply || after.users != before.users {
                    ctx.fail("C07", "nothing_else_moves", "trio_collect", None, "3-pool collect moved something else".into());
                }
                ctx.state_of(&obs_key(&after));
            }
            global_invariants(s, ctx, &before, &after, r.outcome.is_ok(), "collect");
        }
        Op::SetFees { fees } => {
            let before = match s.observe() { Ok(o) => o, Err(_) => return };
            let msg = wasm_exec(&s.factory, &factory::ExecuteMsg::UpdateTrioConfig { trio_addr: s.trio.clone(), owner: None, fee_collector_addr: None, pool_fees: Some(pool_fee(fees)), feature_toggle: None, amp_factor: None }, vec![]);
            let r = tx(&mut s.app, OWNER, vec![msg], Fault::None);
            ctx.op("set_fees", r.outcome.kind());
            if r.outcome.is_ok() {
                s.cfg.fees = fees.clone();
                s.fee18 = [dec_atomics(&fees[0]), dec_atomics(&fees[1]), dec_atomics(&fees[2])];
            }
            let after = match s.observe() { Ok(o) => o, Err(_) => return };
            ctx.trace(&format!("set_fees:{}", r.outcome.kind()));
            global_invariants(s, ctx, &before, &after, r.outcome.is_ok(), "set_fees");
        }
        Op::SetCollector { second } => {
            let before = match s.observe() { Ok(o) => o, Err(_) => return };
            let target = if *second { COLLECTOR2 } else { COLLECTOR };
            let msg = wasm_exec(&s.factory, &factory::ExecuteMsg::UpdateTrioConfig { trio_addr: s.trio.clone(), owner: None, fee_collector_addr: Some(target.to_string()), pool_fees: None, feature_toggle: None, amp_factor: None }, vec![]);
            let r = tx(&mut s.app, OWNER, vec![msg], Fault::None);
            ctx.op("set_collector", r.outcome.kind());
            ctx.trace(&format!("set_collector:{target}:{}", r.outcome.kind()));
            let prev = s.collector_now.clone();
            if r.outcome.is_ok() {
                s.collector_now = target.to_string();
                ctx.probe("collector_repointed");
            }
            let after = match s.observe() { Ok(o) => o, Err(_) => return };
            let (c_after, o_after) = if prev == s.collector_now { (after.collector, after.other_collector) } else { (after.other_collector, after.collector) };
            ctx.eval("C07");
            if c_after != before.collector || o_after != before.other_collector || after.bal != before.bal || after.pending != before.pending || after.reserves != before.reserves {
                ctx.fail("C07", "nothing_else_moves", "set_collector_moved_funds", None, format!("re-pointing the fee collector changed balances or ledgers: pending {:?} -> {:?}, pool {:?} -> {:?}", before.pending, after.pending, before.bal, after.bal));
            }
            if !r.outcome.is_ok() {
                ctx.fail("C07", "collector_update", "owner_update_refused", None, format!("the owner's fee collector update failed: {}", r.outcome.err_text()));
            }
            global_invariants(s, ctx, &before, &after, r.outcome.is_ok(), "set_collector");
        }
        Op::Ramp { future_a, future_block } => {
            let before = match s.observe() { Ok(o) => o, Err(_) => return };
            let cur = s.amp_lin();
            let h = height(&s.app);
            let msg = wasm_exec(&s.factory, &factory::ExecuteMsg::UpdateTrioConfig { trio_addr: s.trio.clone(), owner: None, fee_collector_addr: None, pool_fees: None, feature_toggle: None, amp_factor: Some(trio::RampAmp { future_a: *future_a, future_block: *future_block }) }, vec![]);
            let r = tx(&mut s.app, OWNER, vec![msg], Fault::None);
            ctx.op("ramp", r.outcome.kind());
            ctx.trace(&format!("ramp:{}:{future_a}:{future_block}", r.outcome.kind()));
            let after = match s.observe() { Ok(o) => o, Err(_) => return };
            if r.outcome.is_ok() {
                ctx.eval("C04");
                ctx.probe("ramp_accepted");
                let in_range = *future_a >= 1 && *future_a <= 1_000_000;
                let up_ok = *future_a <= cur.saturating_mul(10);
                let down_ok = future_a.saturating_mul(10) >= cur;
                let time_ok = *future_block >= h + MIN_RAMP_BLOCKS;
                if !in_range || !time_ok {
                    ctx.fail("C04", "ramp_bounds", if !in_range { "amp_out_of_range" } else { "ramp_too_fast" }, None, format!("ramp to {future_a} by block {future_block} accepted at height {h} (current amp {cur})"));
                } else if !up_ok {
                    ctx.fail("C04", "ramp_bounds", "more_than_10x_up", None, format!("ramp from {cur} to {future_a} accepted"));
                } else if !down_ok {
                    ctx.fail("C04", "ramp_bounds", "more_than_10x_down", Some("D3"), format!("ramp from {cur} down to {future_a} (more than a factor 10) accepted"));
                }
                if *future_a < cur { ctx.probe("ramp_down_accepted"); }
                s.model.amp0 = cur;
                s.model.amp1 = *future_a;
                s.model.h0 = h;
                s.model.h1 = *future_block;
                // the stored ramp must be what was requested, starting from the current value
                if let Ok(c) = query::<trio::ConfigResponse, _>(&s.app, &s.trio, &trio::QueryMsg::Config {}) {
                    if c.initial_amp != cur || c.future_amp != *future_a || c.initial_amp_block != h || c.future_amp_block != *future_block {
                        ctx.fail("C04", "ramp_stored", "config_mismatch", None, format!("config after ramp: {}..{} over blocks {}..{}, expected {cur}..{future_a} over {h}..{future_block}", c.initial_amp, c.future_amp, c.initial_amp_block, c.future_amp_block));
                    }
                }
            } else {
                ctx.probe("ramp_rejected");
            }
            global_invariants(s, ctx, &before, &after, r.outcome.is_ok(), "ramp");
        }
    }
}
