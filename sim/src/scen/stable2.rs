//! C03: two-asset stableswap checked against an independent solution of the curve invariant.
//!
//! Independent solver: bisection on the integer-cleared invariant polynomial over exact wide
//! integers, on decimal-normalised reserves (unit 1e-18 whole token). No Newton iteration, no
//! Decimal256. Convention (fixed by the code under test, see DESIGN §4 C03): Ann = amp * n.
//!
//!   n = 2:  Ann*S + D = Ann*D + D^3 / (4xy)      <=>  g(D) = (Ann*S + D - Ann*D)*4xy - D^3 = 0

use crate::big::*;
use crate::core::Ctx;
use crate::scen::pool2::*;
use crate::scen::pool2_oracle::{gross_of, Obs};
use white_whale_std::pool_network::pair::SimulationResponse;

fn w(x: u128) -> U1024 {
    u1024(x)
}

fn pow10(n: u32) -> U1024 {
    let mut r = U1024::ONE;
    for _ in 0..n {
        r = r * u1024(10);
    }
    r
}

/// g(D) >= 0 ?
fn g_nonneg(d: U1024, x: U1024, y: U1024, ann: U1024) -> bool {
    let p4 = u1024(4) * x * y;
    let lhs = (ann * (x + y) + d) * p4;
    let rhs = ann * d * p4 + d * d * d;
    lhs >= rhs
}

/// largest integer D (normalised units) with g(D) >= 0
pub fn d_star(x: U1024, y: U1024, ann: u128) -> U1024 {
    if x == U1024::ZERO || y == U1024::ZERO {
        return U1024::ZERO;
    }
    let ann = w(ann);
    let mut lo = U1024::ZERO; // g(0) >= 0
    let mut hi = x + y + U1024::ONE; // g(S+1) < 0 since D <= S
    while hi - lo > U1024::ONE {
        let mid = (lo + hi) >> 1;
        if g_nonneg(mid, x, y, ann) {
            lo = mid;
        } else {
            hi = mid;
        }
    }
    lo
}

/// smallest integer y with h(y) >= 0, h(y) = (Ann*(x+y) + D - Ann*D)*4xy - D^3 (increasing in y)
pub fn y_star(d: U1024, x: U1024, ann: u128, hi_hint: U1024) -> U1024 {
    let ann = w(ann);
    let ok = |y: U1024| -> bool {
        let p4 = u1024(4) * x * y;
        let lhs = (ann * (x + y) + d) * p4;
        let rhs = ann * d * p4 + d * d * d;
        lhs >= rhs
    };
    let mut hi = hi_hint.max(U1024::ONE);
    let mut guard = 0;
    while !ok(hi) && guard < 24 {
        hi = hi << 1;
        guard += 1;
    }
    let mut lo = U1024::ZERO;
    // invariant: !ok(lo) (y=0 gives lhs 0 < D^3 unless D=0), ok(hi)
    if d == U1024::ZERO {
        return U1024::ZERO;
    }
    while hi - lo > U1024::ONE {
        let mid = (lo + hi) >> 1;
        if ok(mid) {
            hi = mid;
        } else {
            lo = mid;
        }
    }
    hi
}

fn scales(s: &Pool2) -> [U1024; 2] {
    [pow10(18 - s.cfg.decimals[0].min(18) as u32), pow10(18 - s.cfg.decimals[1].min(18) as u32)]
}

fn norm(s: &Pool2, r: [u128; 2]) -> [U1024; 2] {
    let sc = scales(s);
    [w(r[0]) * sc[0], w(r[1]) * sc[1]]
}

/// emulation of the contract's raw-amount Newton `compute_d` (used only to recognise known defect D2 exactly)
fn compute_d_raw_emulated(amp: u64, a: u128, b: u128) -> Option<U1024> {
    let sum = w(a) + w(b);
    if sum == U1024::ZERO {
        return Some(U1024::ZERO);
    }
    if a == 0 || b == 0 {
        return None;
    }
    let a2 = w(a) * u1024(2);
    let b2 = w(b) * u1024(2);
    let ann = w(amp as u128) * u1024(2);
    let mut d = sum;
    for _ in 0..256 {
        let mut d_prod = d;
        d_prod = d_prod * d / a2;
        d_prod = d_prod * d / b2;
        let d_prev = d;
        let leverage = sum * ann;
        let num = d * (d_prod * u1024(2) + leverage);
        let den = d * (ann - U1024::ONE) + d_prod * u1024(3);
        if den == U1024::ZERO {
            return None;
        }
        d = num / den;
        let diff = if d > d_prev { d - d_prev } else { d_prev - d };
        if diff <= U1024::ONE {
            break;
        }
    }
    Some(d)
}

pub fn check_swap_quote(s: &Pool2, ctx: &mut Ctx, amp: u64, before: &Obs, side: usize, amount: u128, q: &SimulationResponse) {
    if !ctx.on("C03") {
        return;
    }
    let ask = 1 - side;
    let whole = [10u128.pow(s.cfg.decimals[0] as u32), 10u128.pow(s.cfg.decimals[1] as u32)];
    // the property speaks about pools holding at least one whole token of each asset
    if before.reserves[0] < whole[0] || before.reserves[1] < whole[1] {
        return;
    }
    ctx.eval("C03");
    let gross = gross_of(q);
    if q.return_amount.u128() > before.reserves[ask] || gross > before.reserves[ask] {
        ctx.fail("C03", "return_le_reserve", "proceeds_exceed_ask_reserve", None,
            format!("offer {amount} side {side}: return {} (gross {gross}) > ask reserve {}", q.return_amount, before.reserves[ask]));
        return;
    }
    let sc = scales(s);
    let n = norm(s, before.reserves);
    let ann = (amp as u128) * 2;
    let d = d_star(n[0], n[1], ann);
    let x_new = n[side] + w(amount) * sc[side];
    let u = sc[ask];
    let y0 = y_star(d, x_new, ann, n[ask] + U1024::ONE);
    let d_lo = if d > u * u1024(2) { d - u * u1024(2) } else { U1024::ZERO };
    let y1 = y_star(d_lo, x_new, ann, n[ask] + U1024::ONE);
    let y2 = y_star(d_lo, x_new + u, ann, n[ask] + U1024::ONE);
    let ymin = y1.min(y2);
    let tol = (if y0 > ymin { y0 - ymin } else { U1024::ZERO }) + u * u1024(2);
    let reserve_after = (w(before.reserves[ask]) - w(gross)) * sc[ask];
    if reserve_after + tol < y0 {
        let deficit = (y0 - reserve_after) / sc[ask];
        let tol_units = tol / sc[ask];
        ctx.fail("C03", "swap_on_or_above_curve", "overpays_beyond_dust", None,
            format!("amp {amp} decimals {:?} reserves {:?} offer {amount} side {side}: gross out {gross} leaves the ask reserve {deficit} base units below the curve point (allowed dust {tol_units})", &s.cfg.decimals[..2], before.reserves));
    }
    ctx.probe("stable_swap_quote_checked");
    // monotonicity of the curve output in the offer
    let delta = match amount % 3 {
        0 => 1,
        1 => amount / 1000 + 1,
        _ => amount / 7 + 1,
    };
    if let Some(bigger) = amount.checked_add(delta) {
        if let Ok(q2) = s.simulate(&s.pair, side, bigger) {
            ctx.eval("C03");
            let g2 = gross_of(&q2);
            if g2 < gross {
                ctx.fail("C03", "output_monotone_in_offer", "decreases", None,
                    format!("amp {amp} reserves {:?}: offer {amount} -> gross {gross}, offer {bigger} -> gross {g2}", before.reserves));
            }
        }
    }
}

/// The same curve bound on what an executed swap really did (reported reserves after the swap)
pub fn check_swap_executed(s: &Pool2, ctx: &mut Ctx, amp: u64, before: &Obs, after: &Obs, side: usize, amount: u128) {
    if !ctx.on("C03") {
        return;
    }
    let ask = 1 - side;
    let whole = [10u128.pow(s.cfg.decimals[0] as u32), 10u128.pow(s.cfg.decimals[1] as u32)];
    if before.reserves[0] < whole[0] || before.reserves[1] < whole[1] {
        return;
    }
    ctx.eval("C03");
    let sc = scales(s);
    let n = norm(s, before.reserves);
    let ann = (amp as u128) * 2;
    let d = d_star(n[0], n[1], ann);
    let x_new = n[side] + w(amount) * sc[side];
    let u = sc[ask];
    let y0 = y_star(d, x_new, ann, n[ask] + U1024::ONE);
    let d_lo = if d > u * u1024(2) { d - u * u1024(2) } else { U1024::ZERO };
    let ymin = y_star(d_lo, x_new, ann, n[ask] + U1024::ONE).min(y_star(d_lo, x_new + u, ann, n[ask] + U1024::ONE));
    let tol = (if y0 > ymin { y0 - ymin } else { U1024::ZERO }) + u * u1024(2);
    let reserve_after = w(after.reserves[ask]) * sc[ask];
    if reserve_after + tol < y0 {
        let deficit = (y0 - reserve_after) / sc[ask];
        ctx.fail("C03", "swap_on_or_above_curve", "executed_swap_overpays", None,
            format!("amp {amp} decimals {:?} reserves {:?} -> {:?}, offer {amount} side {side}: the executed swap left the ask reserve {deficit} base units below the curve point (allowed dust {})", &s.cfg.decimals[..2], before.reserves, after.reserves, tol / sc[ask]));
    }
}

pub fn roundtrip_profit(_s: &Pool2, _ctx: &mut Ctx, _amount: u128, _mid: u128, _back: u128) {}

/// D*_after * S_before >= D*_before * S_after, with the documented dust allowance recognised as finding D16
fn d_per_lp_check(s: &Pool2, ctx: &mut Ctx, amp: u64, before: &Obs, after: &Obs, what: &str, deposit: Option<([u128; 2], u128)>) {
    if !ctx.on("C03") || before.share == 0 || after.share == 0 {
        return;
    }
    let whole = [10u128.pow(s.cfg.decimals[0] as u32), 10u128.pow(s.cfg.decimals[1] as u32)];
    if before.reserves[0] < whole[0] || before.reserves[1] < whole[1] {
        return;
    }
    ctx.eval("C03");
    let ann = (amp as u128) * 2;
    let nb = norm(s, before.reserves);
    let na = norm(s, after.reserves);
    let db = d_star(nb[0], nb[1], ann);
    let da = d_star(na[0], na[1], ann);
    // D* is a floor in units of 1e-18 token: give the "after" side its full unit
    let lhs = (da + U1024::ONE) * w(before.share);
    let rhs = db * w(after.share);
    if lhs >= rhs {
        return;
    }
    // how much is missing, in normalised D units per the new supply
    let equal_dec = s.cfg.decimals[0] == s.cfg.decimals[1];
    let unit = scales(s)[0].min(scales(s)[1]); // one base unit of the finer asset
    let mut known: Option<&str> = None;
    if let Some((amounts, minted)) = deposit {
        if equal_dec {
            // D16: Newton termination dust of the LP-mint computation: at most 6 base units of D
            // D16: the mint is floor(S*(d1-d0)/d0) with d0,d1 from the contract's integer Newton solver over
            // the (here equally scaled) amounts; recognised exactly by emulating that solver, and only
            // while the loss stays dust (< 1 ppm of the invariant per LP)
            let d0 = compute_d_raw_emulated(amp, before.reserves[0], before.reserves[1]);
            let d1 = compute_d_raw_emulated(amp, before.reserves[0].saturating_add(amounts[0]), before.reserves[1].saturating_add(amounts[1]));
            if let (Some(d0), Some(d1)) = (d0, d1) {
                let exact_mint = if db > U1024::ZERO && da > db { w(before.share) * (da - db) / db } else { U1024::ZERO };
                let ratio = if db > U1024::ZERO { da / db + U1024::ONE } else { U1024::ONE };
                let small = (rhs - lhs) * u1024(1_000_000) < rhs || w(minted) <= exact_mint + u1024(4) * (U1024::ONE + ratio);
                if d1 > d0 && d0 > U1024::ZERO && w(before.share) * (d1 - d0) / d0 == w(minted) && small {
                    known = Some("D16");
                }
            }
        } else {
            // D2: LP minted from the invariant over RAW amounts; recognise it exactly
            let d0 = compute_d_raw_emulated(amp, before.reserves[0], before.reserves[1]);
            let d1 = compute_d_raw_emulated(amp, before.reserves[0].saturating_add(amounts[0]), before.reserves[1].saturating_add(amounts[1]));
            if let (Some(d0), Some(d1)) = (d0, d1) {
                if d1 > d0 && d0 > U1024::ZERO {
                    let predicted = w(before.share) * (d1 - d0) / d0;
                    if predicted == w(minted) {
                        known = Some("D2");
                    }
                }
            }
        }
    }
    let deficit_units = (rhs - lhs) / w(before.share) / unit;
    let rel = if rhs > U1024::ZERO { (rhs - lhs) * u1024(1_000_000_000) / rhs } else { U1024::ZERO };
    ctx.fail("C03", "invariant_per_lp_monotone", what, known,
        format!("{what}: amp {amp} decimals {:?}: reserves {:?} S {} -> {:?} S {}: normalised D per LP fell by {rel} ppb ({deficit_units} base units of D)", &s.cfg.decimals[..2], before.reserves, before.share, after.reserves, after.share));
}

pub fn check_deposit(s: &Pool2, ctx: &mut Ctx, amp: u64, before: &Obs, after: &Obs, amounts: [u128; 2], minted: u128) {
    d_per_lp_check(s, ctx, amp, before, after, "deposit", Some((amounts, minted)));
}

pub fn check_withdraw(s: &Pool2, ctx: &mut Ctx, amp: u64, before: &Obs, after: &Obs) {
    d_per_lp_check(s, ctx, amp, before, after, "withdraw", None);
}

/// deposit-then-withdraw never returns more value: the pool's invariant is not lower afterwards
pub fn deposit_withdraw_value(_s: &Pool2, ctx: &mut Ctx, _b0: [u128; 2], _b2: [u128; 2], _amounts: [u128; 2]) {
    // covered step by step: both the deposit and the withdrawal are checked for invariant-per-LP
    // monotonicity, and the LP supply returns to its previous value
    ctx.probe("stable_deposit_withdraw_completed");
}

/// LP the contract's own (emulated) arithmetic would mint for a deposit; None when it would not mint
pub fn predicted_mint(amp: u64, reserves: [u128; 2], amounts: [u128; 2], share: u128) -> Option<u128> {
    let d0 = compute_d_raw_emulated(amp, reserves[0], reserves[1])?;
    let d1 = compute_d_raw_emulated(amp, reserves[0].checked_add(amounts[0])?, reserves[1].checked_add(amounts[1])?)?;
    if d1 <= d0 || d0 == U1024::ZERO {
        return None;
    }
    let m = w(share) * (d1 - d0) / d0;
    if m > w(u128::MAX) {
        None
    } else {
        Some(m.digits()[0] as u128 | ((m.digits()[1] as u128) << 64))
    }
}
