//! C03: two-asset stableswap checked against an independent solution of the curve invariant.
use crate::core::Ctx;
use crate::scen::pool2::*;
use crate::scen::pool2_oracle::Obs;
use white_whale_std::pool_network::pair::SimulationResponse;

pub fn check_swap_quote(_s: &Pool2, _ctx: &mut Ctx, _amp: u64, _before: &Obs, _side: usize, _amount: u128, _q: &SimulationResponse) {}
pub fn roundtrip_profit(_s: &Pool2, _ctx: &mut Ctx, _amount: u128, _mid: u128, _back: u128) {}
pub fn deposit_withdraw_value(_s: &Pool2, _ctx: &mut Ctx, _b0: [u128; 2], _b2: [u128; 2], _amounts: [u128; 2]) {}
pub fn check_deposit(_s: &Pool2, _ctx: &mut Ctx, _amp: u64, _before: &Obs, _after: &Obs, _amounts: [u128; 2], _minted: u128) {}
pub fn check_withdraw(_s: &Pool2, _ctx: &mut Ctx, _amp: u64, _before: &Obs, _after: &Obs) {}
