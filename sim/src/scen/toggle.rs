//! TOGGLE (C17): pause switches stop exactly the operation they name.
//! Complete product: {constant-product pair, stableswap pair, 3-pool, vault} x 2^3 toggle
//! combinations x {empty, funded} x every entry path of every operation.

use cosmwasm_std::{coin, to_json_binary, Coin, CosmosMsg, Decimal, Uint128};
use serde::{Deserialize, Serialize};
use std::str::FromStr;

use white_whale_std::fee::{Fee, VaultFee};
use white_whale_std::pool_network::asset::{Asset, AssetInfo, PairInfo, PairType, TrioInfo};
use white_whale_std::pool_network::router::SwapOperation;
use white_whale_std::pool_network::{factory, frontend_helper, incentive_factory, pair, router, trio};
use white_whale_std::vault_network::{vault, vault_factory, vault_router};

use crate::core::{Ctx, Scenario, Tier};
use crate::rng::Rng;
use crate::scen::vault_helpers::{self as vh, Action};
use crate::world::*;

const OWNER: &str = "owner";
const USER: &str = "alice";
const COLLECTOR: &str = "collector";

#[derive(Serialize, Deserialize, Clone, Debug, PartialEq)]
#[serde(rename_all = "snake_case")]
pub enum Target {
    PairCp,
    PairStable,
    Trio,
    Vault,
}

#[derive(Serialize, Deserialize, Clone, Debug)]
pub struct Cfg {
    pub target: Target,
    /// bit0 = deposits enabled, bit1 = withdrawals enabled, bit2 = swaps / flash loans enabled
    pub bits: u8,
    pub funded: bool,
    pub amount: u128,
    pub case_index: u64,
    /// vault only: set the three flags with three separate partial updates, in this order (0..6)
    #[serde(default)]
    pub partial_order: Option<u8>,
    /// set the toggles in the same update message as a fee change (as an operator would through the factory)
    #[serde(default)]
    pub combined: bool,
    /// which fee schedule the pools and the vault are created with (see `fee3v`)
    #[serde(default)]
    pub fee_variant: u8,
}

#[derive(Serialize, Deserialize, Clone, Debug, PartialEq)]
#[serde(rename_all = "snake_case")]
pub enum Phase {
    /// toggles as configured in `bits`
    Toggled,
    /// everything re-enabled
    Reenabled,
}

#[derive(Serialize, Deserialize, Clone, Debug, PartialEq)]
pub struct Step {
    pub phase: Phase,
    /// index into the path table of the target
    pub path: usize,
}

pub struct Toggle {
    cfg: Cfg,
    app: SimApp,
    a_native: AssetInfo,
    a_token: AssetInfo,
    c_native: AssetInfo,
    pool_factory: String,
    router: String,
    pair: String,
    pair_lp: String,
    trio: String,
    trio_lp: String,
    helper: String,
    vault_factory: String,
    vault: String,
    vault_lp: String,
    vault_router: String,
    borrower: String,
    script: Vec<Step>,
    pos: usize,
    toggled: bool,
    reenabled: bool,
}

/// (operations the path needs, as a bit mask: 1 deposit / 2 withdraw / 4 swap-or-loan; path name)
fn paths(t: &Target) -> Vec<(u8, &'static str)> {
    match t {
        Target::PairCp | Target::PairStable => vec![
            (1, "provide_direct"),
            (1, "provide_via_frontend_helper"),
            (2, "withdraw_cw20_hook"),
            (4, "swap_native_message"),
            (4, "swap_cw20_hook"),
            (4, "swap_via_router_native"),
            (4, "swap_via_router_cw20"),
            // the helper already holds some LP of this pool (sent to it by mistake) when the deposit arrives
            (1, "provide_via_frontend_helper_holding_stray_lp"),
        ],
        Target::Trio => vec![(1, "provide_direct"), (2, "withdraw_cw20_hook"), (4, "swap_native_message"), (4, "swap_cw20_hook")],
        Target::Vault => vec![
            (1, "deposit_direct"),
            (2, "withdraw_cw20_hook"),
            (4, "flash_loan_direct"),
            (4, "flash_loan_via_router"),
            // a share withdrawal issued from inside a flash-loan callback needs both switches
            (2 | 4, "withdraw_inside_flash_loan"),
        ],
    }
}

pub fn n_cases() -> u64 {
    4 * 8 * 2
}

/// fee schedules: the usual one, and valid ones in which the swap / flash-loan fee, the protocol fee or
/// all fees are exactly zero (a switch must not depend on a fee being charged)
fn fee3v(variant: u8) -> [Fee; 3] {
    let d = |s: &str| Fee { share: Decimal::from_str(s).unwrap() };
    match variant % 4 {
        0 => [d("0.001"), d("0.002"), Fee { share: Decimal::zero() }],
        1 => [d("0.001"), Fee { share: Decimal::zero() }, Fee { share: Decimal::zero() }],
        2 => [Fee { share: Decimal::zero() }, d("0.002"), Fee { share: Decimal::zero() }],
        _ => [Fee { share: Decimal::zero() }, Fee { share: Decimal::zero() }, Fee { share: Decimal::zero() }],
    }
}

impl Toggle {
    fn asset(&self, info: &AssetInfo, a: u128) -> Asset {
        Asset { info: info.clone(), amount: Uint128::new(a) }
    }
    fn allowance(&self, tok: &AssetInfo, spender: &str, a: u128) -> CosmosMsg {
        wasm_exec(&asset_id(tok), &cw20::Cw20ExecuteMsg::IncreaseAllowance { spender: spender.into(), amount: Uint128::new(a), expires: None }, vec![])
    }
    fn native_coin(&self, info: &AssetInfo, a: u128) -> Coin {
        coin(a, asset_id(info))
    }
    /// messages of one entry path, valid by construction
    fn path_msgs(&self, name: &str) -> Vec<CosmosMsg> {
        let a = self.cfg.amount;
        match (&self.cfg.target, name) {
            (Target::PairCp | Target::PairStable, "provide_direct") => vec![
                self.allowance(&self.a_token, &self.pair, a),
                wasm_exec(&self.pair, &pair::ExecuteMsg::ProvideLiquidity { assets: [self.asset(&self.a_native, a), self.asset(&self.a_token, a)], slippage_tolerance: None, receiver: None }, vec![self.native_coin(&self.a_native, a)]),
            ],
            (Target::PairCp | Target::PairStable, "provide_via_frontend_helper") => vec![
                self.allowance(&self.a_token, &self.helper, a),
                wasm_exec(&self.helper, &frontend_helper::ExecuteMsg::Deposit { pair_address: self.pair.clone(), assets: [self.asset(&self.a_native, a), self.asset(&self.a_token, a)], slippage_tolerance: None, unbonding_duration: 86_400 }, vec![self.native_coin(&self.a_native, a)]),
            ],
            (Target::PairCp | Target::PairStable, "provide_via_frontend_helper_holding_stray_lp") => vec![
                wasm_exec(&self.pair_lp, &cw20::Cw20ExecuteMsg::Transfer { recipient: self.helper.clone(), amount: Uint128::new((a / 100).max(1)) }, vec![]),
                self.allowance(&self.a_token, &self.helper, a),
                wasm_exec(&self.helper, &frontend_helper::ExecuteMsg::Deposit { pair_address: self.pair.clone(), assets: [self.asset(&self.a_native, a), self.asset(&self.a_token, a)], slippage_tolerance: None, unbonding_duration: 86_400 }, vec![self.native_coin(&self.a_native, a)]),
            ],
            (Target::PairCp | Target::PairStable, "withdraw_cw20_hook") => vec![wasm_exec(&self.pair_lp, &cw20::Cw20ExecuteMsg::Send { contract: self.pair.clone(), amount: Uint128::new(a / 4), msg: to_json_binary(&pair::Cw20HookMsg::WithdrawLiquidity {}).unwrap() }, vec![])],
            (Target::PairCp | Target::PairStable, "swap_native_message") => vec![wasm_exec(&self.pair, &pair::ExecuteMsg::Swap { offer_asset: self.asset(&self.a_native, a / 10), belief_price: None, max_spread: Some(Decimal::percent(50)), to: None }, vec![self.native_coin(&self.a_native, a / 10)])],
            (Target::PairCp | Target::PairStable, "swap_cw20_hook") => vec![wasm_exec(&asset_id(&self.a_token), &cw20::Cw20ExecuteMsg::Send { contract: self.pair.clone(), amount: Uint128::new(a / 10), msg: to_json_binary(&pair::Cw20HookMsg::Swap { belief_price: None, max_spread: Some(Decimal::percent(50)), to: None }).unwrap() }, vec![])],
            (Target::PairCp | Target::PairStable, "swap_via_router_native") => vec![wasm_exec(&self.router, &router::ExecuteMsg::ExecuteSwapOperations { operations: vec![SwapOperation::TerraSwap { offer_asset_info: self.a_native.clone(), ask_asset_info: self.a_token.clone() }], minimum_receive: None, to: None, max_spread: Some(Decimal::percent(50)) }, vec![self.native_coin(&self.a_native, a / 10)])],
            (Target::PairCp | Target::PairStable, "swap_via_router_cw20") => vec![wasm_exec(&asset_id(&self.a_token), &cw20::Cw20ExecuteMsg::Send { contract: self.router.clone(), amount: Uint128::new(a / 10), msg: to_json_binary(&router::Cw20HookMsg::ExecuteSwapOperations { operations: vec![SwapOperation::TerraSwap { offer_asset_info: self.a_token.clone(), ask_asset_info: self.a_native.clone() }], minimum_receive: None, to: None, max_spread: Some(Decimal::percent(50)) }).unwrap() }, vec![])],
            (Target::Trio, "provide_direct") => vec![
                self.allowance(&self.a_token, &self.trio, a),
                wasm_exec(&self.trio, &trio::ExecuteMsg::ProvideLiquidity { assets: [self.asset(&self.a_native, a), self.asset(&self.a_token, a), self.asset(&self.c_native, a)], slippage_tolerance: None, receiver: None }, {
                    let mut v = vec![self.native_coin(&self.a_native, a), self.native_coin(&self.c_native, a)];
                    v.sort_by(|x, y| x.denom.cmp(&y.denom));
                    v
                }),
            ],
            (Target::Trio, "withdraw_cw20_hook") => vec![wasm_exec(&self.trio_lp, &cw20::Cw20ExecuteMsg::Send { contract: self.trio.clone(), amount: Uint128::new(a / 4), msg: to_json_binary(&trio::Cw20HookMsg::WithdrawLiquidity {}).unwrap() }, vec![])],
            (Target::Trio, "swap_native_message") => vec![wasm_exec(&self.trio, &trio::ExecuteMsg::Swap { offer_asset: self.asset(&self.a_native, a / 10), ask_asset: self.c_native.clone(), belief_price: None, max_spread: Some(Decimal::percent(50)), to: None }, vec![self.native_coin(&self.a_native, a / 10)])],
            (Target::Trio, "swap_cw20_hook") => vec![wasm_exec(&asset_id(&self.a_token), &cw20::Cw20ExecuteMsg::Send { contract: self.trio.clone(), amount: Uint128::new(a / 10), msg: to_json_binary(&trio::Cw20HookMsg::Swap { ask_asset: self.a_native.clone(), belief_price: None, max_spread: Some(Decimal::percent(50)), to: None }).unwrap() }, vec![])],
            (Target::Vault, "deposit_direct") => vec![wasm_exec(&self.vault, &vault::ExecuteMsg::Deposit { amount: Uint128::new(a) }, vec![self.native_coin(&self.a_native, a)])],
            (Target::Vault, "withdraw_cw20_hook") => vec![wasm_exec(&self.vault_lp, &cw20::Cw20ExecuteMsg::Send { contract: self.vault.clone(), amount: Uint128::new(a / 4), msg: to_json_binary(&vault::Cw20HookMsg::Withdraw {}).unwrap() }, vec![])],
            (Target::Vault, "flash_loan_direct") => {
                let amt = a / 10;
                let pay = amt + amt / 1000 + amt * 2 / 1000 + 3;
                vec![wasm_exec(&self.borrower, &vh::ExecuteMsg::Run { program: vec![Action::Loan { vault: self.vault.clone(), amount: Uint128::new(amt), program: vec![Action::Pay { to: self.vault.clone(), asset: self.a_native.clone(), amount: Uint128::new(pay) }] }] }, vec![])]
            }
            (Target::Vault, "withdraw_inside_flash_loan") => {
                // the user hands shares to the borrower, which withdraws them inside the callback of its own
                // loan and repays the loan, its fees and (generously) whatever the withdrawal took out
                let amt = a / 10;
                let shares = (a / 8).max(1);
                let pay = amt + amt / 1000 + amt * 2 / 1000 + 3 + 2 * shares;
                vec![
                    wasm_exec(&self.vault_lp, &cw20::Cw20ExecuteMsg::Transfer { recipient: self.borrower.clone(), amount: Uint128::new(shares) }, vec![]),
                    wasm_exec(&self.borrower, &vh::ExecuteMsg::Run { program: vec![Action::Loan { vault: self.vault.clone(), amount: Uint128::new(amt), program: vec![
                        Action::WithdrawShares { vault: self.vault.clone(), lp: self.vault_lp.clone(), amount: Uint128::new(shares) },
                        Action::Pay { to: self.vault.clone(), asset: self.a_native.clone(), amount: Uint128::new(pay) },
                    ] }] }, vec![]),
                ]
            }
            (Target::Vault, "flash_loan_via_router") => {
                let amt = a / 10;
                let fees = amt / 1000 + amt * 2 / 1000 + 3;
                vec![wasm_exec(&self.vault_router, &vault_router::ExecuteMsg::FlashLoan {
                    assets: vec![self.asset(&self.a_native, amt)],
                    msgs: vec![wasm_exec(&self.borrower, &vh::ExecuteMsg::Run { program: vec![Action::Pay { to: self.vault_router.clone(), asset: self.a_native.clone(), amount: Uint128::new(fees) }] }, vec![])],
                }, vec![])]
            }
            _ => vec![],
        }
    }
    fn set_toggles(&mut self, bits: u8) -> TxResult {
        let d = bits & 1 != 0;
        let w = bits & 2 != 0;
        let s = bits & 4 != 0;
        let f = fee3v(self.cfg.fee_variant);
        let comb = self.cfg.combined;
        let msg = match self.cfg.target {
            Target::PairCp | Target::PairStable => wasm_exec(&self.pool_factory, &factory::ExecuteMsg::UpdatePairConfig { pair_addr: self.pair.clone(), owner: None, fee_collector_addr: if comb { Some(COLLECTOR.into()) } else { None }, pool_fees: if comb { Some(pair::PoolFee { protocol_fee: f[0].clone(), swap_fee: f[1].clone(), burn_fee: f[2].clone() }) } else { None }, feature_toggle: Some(pair::FeatureToggle { withdrawals_enabled: w, deposits_enabled: d, swaps_enabled: s }) }, vec![]),
            Target::Trio => wasm_exec(&self.pool_factory, &factory::ExecuteMsg::UpdateTrioConfig { trio_addr: self.trio.clone(), owner: None, fee_collector_addr: if comb { Some(COLLECTOR.into()) } else { None }, pool_fees: if comb { Some(trio::PoolFee { protocol_fee: f[0].clone(), swap_fee: f[1].clone(), burn_fee: f[2].clone() }) } else { None }, feature_toggle: Some(trio::FeatureToggle { withdrawals_enabled: w, deposits_enabled: d, swaps_enabled: s }), amp_factor: if comb { Some(trio::RampAmp { future_a: if bits == 7 { 100 } else { 150 + bits as u64 }, future_block: height(&self.app) + 10_000 + bits as u64 }) } else { None } }, vec![]),
            Target::Vault => {
                if let Some(order) = self.cfg.partial_order {
                    // three partial updates, one flag each; an update must not touch the other flags
                    const P: [[usize; 3]; 6] = [[0, 1, 2], [0, 2, 1], [1, 0, 2], [1, 2, 0], [2, 0, 1], [2, 1, 0]];
                    let mut last = None;
                    for which in P[(order % 6) as usize] {
                        let params = vault::UpdateConfigParams {
                            flash_loan_enabled: if which == 2 { Some(s) } else { None },
                            deposit_enabled: if which == 0 { Some(d) } else { None },
                            withdraw_enabled: if which == 1 { Some(w) } else { None },
                            new_owner: None,
                            new_vault_fees: None,
                            new_fee_collector_addr: None,
                        };
                        let m = wasm_exec(&self.vault_factory, &vault_factory::ExecuteMsg::UpdateVaultConfig { vault_addr: self.vault.clone(), params }, vec![]);
                        let r = tx(&mut self.app, OWNER, vec![m], Fault::None);
                        if !r.outcome.is_ok() {
                            return r;
                        }
                        last = Some(r);
                    }
                    return last.unwrap();
                }
                wasm_exec(&self.vault_factory, &vault_factory::ExecuteMsg::UpdateVaultConfig { vault_addr: self.vault.clone(), params: vault::UpdateConfigParams { flash_loan_enabled: Some(s), deposit_enabled: Some(d), withdraw_enabled: Some(w), new_owner: None, new_vault_fees: if comb { Some(VaultFee { protocol_fee: f[0].clone(), flash_loan_fee: f[1].clone(), burn_fee: f[2].clone() }) } else { None }, new_fee_collector_addr: if comb { Some(COLLECTOR.into()) } else { None } } }, vec![])
            }
        };
        tx(&mut self.app, OWNER, vec![msg], Fault::None)
    }
    /// what the pool quotes for a fixed small swap (None for the vault or when the query fails)
    fn quote(&self) -> Option<String> {
        let a = (self.cfg.amount / 10).max(1);
        match self.cfg.target {
            Target::PairCp | Target::PairStable => query::<pair::SimulationResponse, _>(&self.app, &self.pair, &pair::QueryMsg::Simulation { offer_asset: self.asset(&self.a_native, a) }).ok().map(|r| format!("{r:?}")),
            Target::Trio => query::<trio::SimulationResponse, _>(&self.app, &self.trio, &trio::QueryMsg::Simulation { offer_asset: self.asset(&self.a_native, a), ask_asset: self.asset(&self.c_native, 0) }).ok().map(|r| format!("{r:?}")),
            Target::Vault => None,
        }
    }
    fn flags(&self) -> Option<[bool; 3]> {
        match self.cfg.target {
            Target::PairCp | Target::PairStable => query::<pair::ConfigResponse, _>(&self.app, &self.pair, &pair::QueryMsg::Config {}).ok().map(|c| [c.feature_toggle.deposits_enabled, c.feature_toggle.withdrawals_enabled, c.feature_toggle.swaps_enabled]),
            Target::Trio => query::<trio::ConfigResponse, _>(&self.app, &self.trio, &trio::QueryMsg::Config {}).ok().map(|c| [c.feature_toggle.deposits_enabled, c.feature_toggle.withdrawals_enabled, c.feature_toggle.swaps_enabled]),
            Target::Vault => query::<vault::Config, _>(&self.app, &self.vault, &vault::QueryMsg::Config {}).ok().map(|c| [c.deposit_enabled, c.withdraw_enabled, c.flash_loan_enabled]),
        }
    }
}

fn is_disabled_error(e: &str) -> bool {
    e.contains("Operation disabled,") || e.contains("Deposits are not enabled") || e.contains("Withdrawals are not enabled") || e.contains("Flash-loans are not enabled")
}

impl Scenario for Toggle {
    const NAME: &'static str = "TOGGLE";
    type Cfg = Cfg;
    type Step = Step;

    fn gen_cfg(rng: &mut Rng, _prop: &str, _tier: Tier, idx: u64) -> Cfg {
        let i = idx % n_cases();
        let target = match i / 16 {
            0 => Target::PairCp,
            1 => Target::PairStable,
            2 => Target::Trio,
            _ => Target::Vault,
        };
        let amount = rng.range128(200_000, 5_000_000_000);
        let partial_order = if rng.chance(1, 2) { Some(rng.below(6) as u8) } else { None };
        let combined = rng.chance(1, 2);
        Cfg { target, bits: ((i / 2) % 8) as u8, funded: i % 2 == 1, amount, case_index: i, partial_order, combined, fee_variant: if rng.chance(1, 2) { 0 } else { rng.below(4) as u8 } }
    }

    fn max_steps(_cfg: &Cfg) -> usize {
        64
    }

    fn build(cfg: &Cfg, ctx: &mut Ctx) -> Self {
        let big = 10u128.pow(15);
        let mut app = new_app(&[(USER, vec![coin(big, "uaaa"), coin(big, "uccc")]), (OWNER, vec![coin(big, "uaaa"), coin(big, "uccc")])]);
        let token_code = app.store_code(code::token());
        let pair_code = app.store_code(code::pair());
        let trio_code = app.store_code(code::trio());
        let pf_code = app.store_code(code::pool_factory());
        let rt_code = app.store_code(code::pool_router());
        let vault_code = app.store_code(code::vault());
        let vf_code = app.store_code(code::vault_factory());
        let vr_code = app.store_code(code::vault_router());
        let b_code = app.store_code(vh::borrower_code());
        let if_code = app.store_code(code::incentive_factory());
        let inc_code = app.store_code(code::incentive());
        let fd_code = app.store_code(code::fee_distributor_mock());
        let fh_code = app.store_code(code::frontend_helper());
        let tok = new_cw20(&mut app, token_code, "TKB", 6, OWNER, &[(USER, big), (OWNER, big)]);
        let (a_native, a_token, c_native) = (native("uaaa"), token(&tok), native("uccc"));
        let pool_factory = must_instantiate(&mut app, pf_code, OWNER, &factory::InstantiateMsg { pair_code_id: pair_code, trio_code_id: trio_code, token_code_id: token_code, fee_collector_addr: COLLECTOR.into() }, "pf", None);
        for d in ["uaaa", "uccc"] {
            must_exec(&mut app, OWNER, &pool_factory, &factory::ExecuteMsg::AddNativeTokenDecimals { denom: d.into(), decimals: 6 }, vec![coin(1, d)]);
        }
        let f = fee3v(cfg.fee_variant);
        let pair_type = if cfg.target == Target::PairStable { PairType::StableSwap { amp: 100 } } else { PairType::ConstantProduct };
        must_exec(&mut app, OWNER, &pool_factory, &factory::ExecuteMsg::CreatePair { asset_infos: [a_native.clone(), a_token.clone()], pool_fees: pair::PoolFee { protocol_fee: f[0].clone(), swap_fee: f[1].clone(), burn_fee: f[2].clone() }, pair_type, token_factory_lp: false }, vec![]);
        must_exec(&mut app, OWNER, &pool_factory, &factory::ExecuteMsg::CreateTrio { asset_infos: [a_native.clone(), a_token.clone(), c_native.clone()], pool_fees: trio::PoolFee { protocol_fee: f[0].clone(), swap_fee: f[1].clone(), burn_fee: f[2].clone() }, amp_factor: 100, token_factory_lp: false }, vec![]);
        let pi: PairInfo = query(&app, &pool_factory, &factory::QueryMsg::Pair { asset_infos: [a_native.clone(), a_token.clone()] }).expect("pair");
        let ti: TrioInfo = query(&app, &pool_factory, &factory::QueryMsg::Trio { asset_infos: [a_native.clone(), a_token.clone(), c_native.clone()] }).expect("trio");
        let router = must_instantiate(&mut app, rt_code, OWNER, &router::InstantiateMsg { terraswap_factory: pool_factory.clone() }, "router", Some(OWNER));
        let vault_factory = must_instantiate(&mut app, vf_code, OWNER, &vault_factory::InstantiateMsg { owner: OWNER.into(), vault_id: vault_code, token_id: token_code, fee_collector_addr: COLLECTOR.into() }, "vf", None);
        must_exec(&mut app, OWNER, &vault_factory, &vault_factory::ExecuteMsg::CreateVault { asset_info: a_native.clone(), fees: VaultFee { protocol_fee: f[0].clone(), flash_loan_fee: f[1].clone(), burn_fee: f[2].clone() }, token_factory_lp: false }, vec![]);
        let vault_addr: Option<String> = query(&app, &vault_factory, &vault_factory::QueryMsg::Vault { asset_info: a_native.clone() }).expect("vault");
        let vault_addr = vault_addr.expect("vault addr");
        let vc: vault::Config = query(&app, &vault_addr, &vault::QueryMsg::Config {}).expect("vault cfg");
        let vault_router = must_instantiate(&mut app, vr_code, OWNER, &vault_router::InstantiateMsg { owner: OWNER.into(), vault_factory_addr: vault_factory.clone() }, "vr", None);
        let borrower = must_instantiate(&mut app, b_code, OWNER, &cosmwasm_std::Empty {}, "borrower", None);
        let r = tx(&mut app, OWNER, vec![bank_send(&borrower, 10u128.pow(12), "uaaa")], Fault::None);
        assert!(r.outcome.is_ok());
        let fd = must_instantiate(&mut app, fd_code, OWNER, &fee_distributor_mock::msg::InstantiateMsg {}, "fdmock", None);
        let inc_factory = must_instantiate(&mut app, if_code, OWNER, &incentive_factory::InstantiateMsg { fee_collector_addr: COLLECTOR.into(), fee_distributor_addr: fd, create_flow_fee: Asset { info: c_native.clone(), amount: Uint128::new(1000) }, max_concurrent_flows: 5, incentive_code_id: inc_code, max_flow_epoch_buffer: 14, min_unbonding_duration: 86_400, max_unbonding_duration: 31_536_000 }, "if", None);
        must_exec(&mut app, OWNER, &inc_factory, &incentive_factory::ExecuteMsg::CreateIncentive { lp_asset: pi.liquidity_token.clone() }, vec![]);
        let helper = must_instantiate(&mut app, fh_code, OWNER, &frontend_helper::InstantiateMsg { incentive_factory: inc_factory }, "helper", None);
        let mut s = Toggle {
            cfg: cfg.clone(),
            app,
            a_native,
            a_token,
            c_native,
            pool_factory,
            router,
            pair: pi.contract_addr,
            pair_lp: asset_id(&pi.liquidity_token),
            trio: ti.contract_addr,
            trio_lp: asset_id(&ti.liquidity_token),
            helper,
            vault_factory,
            vault: vault_addr,
            vault_lp: asset_id(&vc.lp_asset),
            vault_router,
            borrower,
            script: vec![],
            pos: 0,
            toggled: false,
            reenabled: false,
        };
        // new pools and vaults start with everything enabled
        ctx.eval("C17");
        if s.flags() != Some([true, true, true]) {
            ctx.fail("C17", "fresh_all_enabled", "flags", None, format!("{:?}: fresh contract reports flags {:?}", cfg.target, s.flags()));
        }
        if cfg.funded {
            // liquidity from the user through the direct path, with everything enabled
            let mut c2 = cfg.clone();
            c2.amount = 10u128.pow(10);
            let saved = std::mem::replace(&mut s.cfg, c2);
            let first = paths(&saved.target)[0].1;
            let msgs = s.path_msgs(first);
            let r = tx(&mut s.app, USER, msgs, Fault::None);
            if !r.outcome.is_ok() {
                panic!("harness: funding {:?} failed: {}", saved.target, r.outcome.err_text());
            }
            s.cfg = saved;
        }
        if cfg.funded && cfg.target == Target::Trio {
            // an amplification ramp started earlier is still running when the switches are used
            let h0 = height(&s.app);
            let msg = wasm_exec(&s.pool_factory, &factory::ExecuteMsg::UpdateTrioConfig { trio_addr: s.trio.clone(), owner: None, fee_collector_addr: None, pool_fees: None, feature_toggle: None, amp_factor: Some(trio::RampAmp { future_a: 400, future_block: h0 + 20_000 }) }, vec![]);
            let r = tx(&mut s.app, OWNER, vec![msg], Fault::None);
            if !r.outcome.is_ok() {
                panic!("harness: starting a ramp failed: {}", r.outcome.err_text());
            }
            let t = now_ns(&s.app);
            set_clock(&mut s.app, t + 7_000 * 6_000_000_000, h0 + 7_000);
            ctx.probe("ramp_in_progress_while_toggling");
        }
        // script: every path under the configured toggles, then every path again after re-enabling
        let n = paths(&cfg.target).len();
        for p in 0..n {
            s.script.push(Step { phase: Phase::Toggled, path: p });
        }
        for p in 0..n {
            s.script.push(Step { phase: Phase::Reenabled, path: p });
        }
        s
    }

    fn gen_step(&mut self, _rng: &mut Rng, _ctx: &mut Ctx) -> Option<Step> {
        let st = self.script.get(self.pos).cloned();
        self.pos += 1;
        st
    }

    fn apply(&mut self, step: &Step, ctx: &mut Ctx) {
        let table = paths(&self.cfg.target);
        let Some((need, name)) = table.get(step.path).cloned() else { return };
        let bits = match step.phase {
            Phase::Toggled => {
                if !self.toggled {
                    let q0 = self.quote();
                    let r = self.set_toggles(self.cfg.bits);
                    // switching operations off and on must not reprice the pool
                    if self.cfg.funded && r.outcome.is_ok() && self.quote() != q0 && q0.is_some() {
                        ctx.fail("C17", "toggle_update", "quote_changed_by_toggle_update", None, format!("the same Simulation answered {:?} before and {:?} after setting the toggles {:03b}", q0, self.quote(), self.cfg.bits));
                    }
                    if !r.outcome.is_ok() {
                        ctx.fail("C17", "toggle_update", "owner_update_failed", None, format!("setting toggles {:03b} failed: {}", self.cfg.bits, r.outcome.err_text()));
                    }
                    self.toggled = true;
                    let want = [self.cfg.bits & 1 != 0, self.cfg.bits & 2 != 0, self.cfg.bits & 4 != 0];
                    if self.flags() != Some(want) {
                        ctx.fail("C17", "toggle_update", "flags_not_stored", None, format!("flags {:?} after setting {:?}", self.flags(), want));
                    }
                    // an unrelated configuration update must leave the flags alone
                    let f = fee3v(self.cfg.fee_variant);
                    let msg = match self.cfg.target {
                        Target::PairCp | Target::PairStable => wasm_exec(&self.pool_factory, &factory::ExecuteMsg::UpdatePairConfig { pair_addr: self.pair.clone(), owner: None, fee_collector_addr: Some(COLLECTOR.into()), pool_fees: Some(pair::PoolFee { protocol_fee: f[0].clone(), swap_fee: f[1].clone(), burn_fee: f[2].clone() }), feature_toggle: None }, vec![]),
                        Target::Trio => wasm_exec(&self.pool_factory, &factory::ExecuteMsg::UpdateTrioConfig { trio_addr: self.trio.clone(), owner: None, fee_collector_addr: Some(COLLECTOR.into()), pool_fees: Some(trio::PoolFee { protocol_fee: f[0].clone(), swap_fee: f[1].clone(), burn_fee: f[2].clone() }), feature_toggle: None, amp_factor: None }, vec![]),
                        Target::Vault => wasm_exec(&self.vault_factory, &vault_factory::ExecuteMsg::UpdateVaultConfig { vault_addr: self.vault.clone(), params: vault::UpdateConfigParams { flash_loan_enabled: None, deposit_enabled: None, withdraw_enabled: None, new_owner: None, new_vault_fees: Some(VaultFee { protocol_fee: f[0].clone(), flash_loan_fee: f[1].clone(), burn_fee: f[2].clone() }), new_fee_collector_addr: Some(COLLECTOR.into()) } }, vec![]),
                    };
                    let r = tx(&mut self.app, OWNER, vec![msg], Fault::None);
                    if !r.outcome.is_ok() {
                        ctx.fail("C17", "toggle_update", "unrelated_update_failed", None, r.outcome.err_text());
                    } else if self.flags() != Some(want) {
                        ctx.fail("C17", "toggle_update", "flags_changed_by_unrelated_update", None, format!("flags {:?} after a fee-only update, expected {:?}", self.flags(), want));
                    }
                }
                self.cfg.bits
            }
            Phase::Reenabled => {
                if !self.reenabled {
                    let q0 = self.quote();
                    let r = self.set_toggles(7);
                    if self.cfg.funded && r.outcome.is_ok() && self.quote() != q0 && q0.is_some() {
                        ctx.fail("C17", "toggle_update", "quote_changed_by_toggle_update", None, format!("the same Simulation answered {:?} before and {:?} after re-enabling everything", q0, self.quote()));
                    }
                    if !r.outcome.is_ok() {
                        ctx.fail("C17", "toggle_update", "reenable_failed", None, r.outcome.err_text());
                    }
                    self.reenabled = true;
                }
                7
            }
        };
        let enabled = bits & need == need;
        let fp0 = fingerprint(&self.app);
        let msgs = self.path_msgs(name);
        let r = tx(&mut self.app, USER, msgs, Fault::None);
        let fp1 = fingerprint(&self.app);
        let opname = format!("{:?}/{name}", self.cfg.target);
        ctx.op(&opname, r.outcome.kind());
        ctx.trace(&format!("{opname}:{:?}:{}", step.phase, r.outcome.kind()));
        ctx.eval("C17");
        let e = r.outcome.err_text();
        if !enabled {
            ctx.probe("disabled_path_exercised");
            if r.outcome.is_ok() {
                ctx.fail("C17", "disabled_op_rejected", name, None, format!("{opname} succeeded although its operation is disabled (toggles {:03b}, funded {})", bits, self.cfg.funded));
            } else if fp0 != fp1 {
                ctx.fail("C17", "disabled_op_no_effect", name, None, format!("{opname} was rejected but the chain state changed"));
            }
        } else {
            if !r.outcome.is_ok() && is_disabled_error(&e) {
                ctx.fail("C17", "enabled_op_not_refused_as_disabled", name, None, format!("{opname} refused as disabled although its flag is on (toggles {:03b}): {e}", bits));
            }
            // with liquidity present every enabled path is constructed to succeed
            if self.cfg.funded && !r.outcome.is_ok() {
                ctx.fail("C17", "other_ops_keep_working", name, None, format!("{opname} failed with its flag on (toggles {:03b}, phase {:?}): {e}", bits, step.phase));
            }
            if r.outcome.is_ok() {
                ctx.state_of(&format!("{}:{}:{}:{:?}", self.cfg.case_index, name, self.cfg.amount, step.phase));
                ctx.probe("enabled_path_succeeded");
            }
        }
    }

    fn sim_clock(&self) -> (u64, u64) {
        (0, 0)
    }
}
