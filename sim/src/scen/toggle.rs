//! TOGGLE (C17): pause switches stop exactly the operation they name.
//! Complete product: {constant-product pair, stableswap pair, 3-pool, vault} x 2^3 toggle
//! combinations x {empty, funded} x every entry path of every operation.

use cosmwasm_std::{coin, to_json_binary, Coin, CosmosMsg, Decimal, Uint128};
use serde::{Deserialize, Serialize};
use std::str::FromStr;

use white_whale_std::fee::{Fee, VaultFee};
use white_whale_std::pool_network::asset::{Asset, AssetInfo, PairInfo, PairType, TrioInfo};
use white_whale_std::pool_network::router::SwapOperation;
use white_whale_std::pool_network::{factory, frontend_helper, incentive_factory, pair, router, trio};
use white_whale_std::vault_network::{vault, vault_factory, vault_router};

use crate::core::{Ctx, Scenario, Tier};
use crate::rng::Rng;
use crate::scen::vault_helpers::{self as vh, Action};
use crate::world::*;

const OWNER: &str = "owner";
const USER: &str = "alice";
const COLLECTOR: &str = "collector";

#[derive(Serialize, Deserialize, Clone, Debug, PartialEq)]
#[serde(rename_all = "snake_case")]
pub enum Target {
    PairCp,
    PairStable,
    Trio,
    Vault,
}

#[derive(Serialize, Deserialize, Clone, Debug)]
pub struct Cfg {
    pub target: Target,
    /// bit0 = deposits enabled, bit1 = withdrawals enabled, bit2 = swaps / flash loans enabled
    pub bits: u8,
    pub funded: bool,
    pub amount: u128,
    pub case_index: u64,
    /// vault only: set the three flags with three separate partial updates, in this order (0..6)
    #[serde(default)]
    pub partial_order: Option<u8>,
    /// set the toggles in the same update message as a fee change (as an operator would through the factory)
    #[serde(default)]
    pub combined: bool,
    /// which fee schedule the pools and the vault are created with (see `fee3v`)
    #[serde(default)]
    pub fee_variant: u8,
    /// asset kinds of the pools and the vault: 0 = (native, cw20, native), 1 = all native,
    /// 2 = all cw20, 3 = (cw20, native, cw20); the vault holds the first asset
    #[serde(default)]
    pub kinds: u8,
}

#[derive(Serialize, Deserialize, Clone, Debug, PartialEq)]
#[serde(rename_all = "snake_case")]
pub enum Phase {
    /// toggles as configured in `bits`
    Toggled,
    /// everything re-enabled
    Reenabled,
}

#[derive(Serialize, Deserialize, Clone, Debug, PartialEq)]
pub struct Step {
    pub phase: Phase,
    /// index into the path table of the target
    pub path: usize,
}

pub struct Toggle {
    cfg: Cfg,
    app: SimApp,
    a: AssetInfo,
    b: AssetInfo,
    c: AssetInfo,
    pool_factory: String,
    router: String,
    pair: String,
    pair_lp: String,
    trio: String,
    trio_lp: String,
    helper: String,
    vault_factory: String,
    vault: String,
    vault_lp: String,
    vault_router: String,
    borrower: String,
    script: Vec<Step>,
    pos: usize,
    toggled: bool,
    reenabled: bool,
}

/// (operations the path needs, as a bit mask: 1 deposit / 2 withdraw / 4 swap-or-loan; path name)
/// hostile paths (constructed to be refused whatever the switches say; they must never get through
/// while the operation they would perform is switched off)
fn hostile(name: &str) -> bool {
    name.starts_with("hostile_")
}

fn paths(t: &Target) -> Vec<(u8, &'static str)> {
    match t {
        Target::PairCp | Target::PairStable => vec![
            (1, "provide_direct"),
            (1, "provide_via_frontend_helper"),
            (2, "withdraw_cw20_hook"),
            (4, "swap_native_message"),
            (4, "swap_cw20_hook"),
            (4, "swap_via_router_native"),
            (4, "swap_via_router_cw20"),
            // the helper already holds some LP of this pool (sent to it by mistake) when the deposit arrives
            (1, "provide_via_frontend_helper_holding_stray_lp"),
            (1, "provide_for_receiver"),
            (4, "swap_to_receiver"),
            // the direct WithdrawLiquidity {} message (meant for token-factory LP) with some coin attached
            (2, "hostile_withdraw_direct_message_with_coin"),
            // declared amounts of exactly zero (with coins attached where the message takes coins)
            (4, "hostile_swap_zero_amount_with_coins"),
            (1, "hostile_provide_zero_amounts"),
        ],
        Target::Trio => vec![
            (1, "provide_direct"),
            (2, "withdraw_cw20_hook"),
            (4, "swap_native_message"),
            (4, "swap_cw20_hook"),
            (1, "provide_for_receiver"),
            (4, "swap_to_receiver"),
            (2, "hostile_withdraw_direct_message_with_coin"),
            (4, "hostile_swap_zero_amount_with_coins"),
            (1, "hostile_provide_zero_amounts"),
        ],
        Target::Vault => vec![
            (1, "deposit_direct"),
            (2, "withdraw_cw20_hook"),
            (4, "flash_loan_direct"),
            (4, "flash_loan_via_router"),
            // a share withdrawal issued from inside a flash-loan callback needs both switches
            (2 | 4, "withdraw_inside_flash_loan"),
            (2, "hostile_withdraw_direct_message_with_coin"),
            (1, "hostile_deposit_zero_amount_with_coins"),
            (4, "hostile_flash_loan_zero_amount"),
        ],
    }
}

pub fn n_cases() -> u64 {
    4 * 8 * 2 * 4
}

/// fee schedules: the usual one, and valid ones in which the swap / flash-loan fee, the protocol fee or
/// all fees are exactly zero (a switch must not depend on a fee being charged)
fn fee3v(variant: u8) -> [Fee; 3] {
    let d = |s: &str| Fee { share: Decimal::from_str(s).unwrap() };
    match variant % 4 {
        0 => [d("0.001"), d("0.002"), Fee { share: Decimal::zero() }],
        1 => [d("0.001"), Fee { share: Decimal::zero() }, Fee { share: Decimal::zero() }],
        2 => [Fee { share: Decimal::zero() }, d("0.002"), Fee { share: Decimal::zero() }],
        _ => [Fee { share: Decimal::zero() }, Fee { share: Decimal::zero() }, Fee { share: Decimal::zero() }],
    }
}

impl Toggle {
    fn asset(&self, info: &AssetInfo, a: u128) -> Asset {
        Asset { info: info.clone(), amount: Uint128::new(a) }
    }
    fn is_native(info: &AssetInfo) -> bool {
        matches!(info, AssetInfo::NativeToken { .. })
    }
    /// what the sender must do to hand `items` to `spender`: cw20 allowances, and the coins to attach
    fn fund(&self, spender: &str, items: &[(&AssetInfo, u128)]) -> (Vec<CosmosMsg>, Vec<Coin>) {
        let mut pre = vec![];
        let mut coins = vec![];
        for (info, a) in items {
            if Self::is_native(info) {
                coins.push(coin(*a, asset_id(info)));
            } else {
                pre.push(wasm_exec(&asset_id(info), &cw20::Cw20ExecuteMsg::IncreaseAllowance { spender: spender.into(), amount: Uint128::new(*a), expires: None }, vec![]));
            }
        }
        coins.sort_by(|x, y| x.denom.cmp(&y.denom));
        (pre, coins)
    }
    fn pool_assets(&self) -> Vec<AssetInfo> {
        match self.cfg.target {
            Target::Trio => vec![self.a.clone(), self.b.clone(), self.c.clone()],
            _ => vec![self.a.clone(), self.b.clone()],
        }
    }
    /// (offer, ask): the first pool asset of the wanted kind and the pool asset after it
    fn offer_of_kind(&self, native: bool) -> Option<(AssetInfo, AssetInfo)> {
        let p = self.pool_assets();
        let i = p.iter().position(|x| Self::is_native(x) == native)?;
        Some((p[i].clone(), p[(i + 1) % p.len()].clone()))
    }
    /// a swap sent straight to the pool: native message or cw20 send hook, as the offered asset demands
    fn swap_msgs(&self, offer: &AssetInfo, ask: &AssetInfo, amt: u128, to: Option<String>) -> Vec<CosmosMsg> {
        let ms = Some(Decimal::percent(50));
        match (&self.cfg.target, Self::is_native(offer)) {
            (Target::Trio, true) => vec![wasm_exec(&self.trio, &trio::ExecuteMsg::Swap { offer_asset: self.asset(offer, amt), ask_asset: ask.clone(), belief_price: None, max_spread: ms, to }, vec![coin(amt, asset_id(offer))])],
            (Target::Trio, false) => vec![wasm_exec(&asset_id(offer), &cw20::Cw20ExecuteMsg::Send { contract: self.trio.clone(), amount: Uint128::new(amt), msg: to_json_binary(&trio::Cw20HookMsg::Swap { ask_asset: ask.clone(), belief_price: None, max_spread: ms, to }).unwrap() }, vec![])],
            (_, true) => vec![wasm_exec(&self.pair, &pair::ExecuteMsg::Swap { offer_asset: self.asset(offer, amt), belief_price: None, max_spread: ms, to }, vec![coin(amt, asset_id(offer))])],
            (_, false) => vec![wasm_exec(&asset_id(offer), &cw20::Cw20ExecuteMsg::Send { contract: self.pair.clone(), amount: Uint128::new(amt), msg: to_json_binary(&pair::Cw20HookMsg::Swap { belief_price: None, max_spread: ms, to }).unwrap() }, vec![])],
        }
    }
    fn provide_msgs(&self, receiver: Option<String>) -> Vec<CosmosMsg> {
        let a = self.cfg.amount;
        let p = self.pool_assets();
        let items: Vec<(&AssetInfo, u128)> = p.iter().map(|i| (i, a)).collect();
        match self.cfg.target {
            Target::Trio => {
                let (mut m, funds) = self.fund(&self.trio, &items);
                m.push(wasm_exec(&self.trio, &trio::ExecuteMsg::ProvideLiquidity { assets: [self.asset(&p[0], a), self.asset(&p[1], a), self.asset(&p[2], a)], slippage_tolerance: None, receiver }, funds));
                m
            }
            _ => {
                let (mut m, funds) = self.fund(&self.pair, &items);
                m.push(wasm_exec(&self.pair, &pair::ExecuteMsg::ProvideLiquidity { assets: [self.asset(&p[0], a), self.asset(&p[1], a)], slippage_tolerance: None, receiver }, funds));
                m
            }
        }
    }
    fn helper_deposit_msgs(&self) -> Vec<CosmosMsg> {
        let a = self.cfg.amount;
        let (mut m, funds) = self.fund(&self.helper, &[(&self.a, a), (&self.b, a)]);
        m.push(wasm_exec(&self.helper, &frontend_helper::ExecuteMsg::Deposit { pair_address: self.pair.clone(), assets: [self.asset(&self.a, a), self.asset(&self.b, a)], slippage_tolerance: None, unbonding_duration: 86_400 }, funds));
        m
    }
    /// the coin attached to the hostile direct withdrawal: a denom foreign to everything, or a pool asset
    fn stray_coin(&self) -> Coin {
        let amt = (self.cfg.amount / 8).clamp(1, 500);
        let pool_native = self.pool_assets().into_iter().find(Self::is_native);
        match pool_native {
            Some(n) if self.cfg.amount % 2 == 1 => coin(amt, asset_id(&n)),
            _ => coin(amt, "uzzz"),
        }
    }
    /// messages of one entry path, valid by construction (empty: the path does not exist for these asset kinds)
    fn path_msgs(&self, name: &str) -> Vec<CosmosMsg> {
        let a = self.cfg.amount;
        let rt_spread = Some(Decimal::percent(50));
        match (&self.cfg.target, name) {
            (Target::PairCp | Target::PairStable | Target::Trio, "provide_direct") => self.provide_msgs(None),
            (Target::PairCp | Target::PairStable | Target::Trio, "provide_for_receiver") => self.provide_msgs(Some("bobby".into())),
            (Target::PairCp | Target::PairStable, "provide_via_frontend_helper") => self.helper_deposit_msgs(),
            (Target::PairCp | Target::PairStable, "provide_via_frontend_helper_holding_stray_lp") => {
                let mut m = vec![wasm_exec(&self.pair_lp, &cw20::Cw20ExecuteMsg::Transfer { recipient: self.helper.clone(), amount: Uint128::new((a / 100).max(1)) }, vec![])];
                m.extend(self.helper_deposit_msgs());
                m
            }
            (Target::PairCp | Target::PairStable, "withdraw_cw20_hook") => vec![wasm_exec(&self.pair_lp, &cw20::Cw20ExecuteMsg::Send { contract: self.pair.clone(), amount: Uint128::new(a / 4), msg: to_json_binary(&pair::Cw20HookMsg::WithdrawLiquidity {}).unwrap() }, vec![])],
            (Target::PairCp | Target::PairStable, "hostile_withdraw_direct_message_with_coin") => vec![wasm_exec(&self.pair, &pair::ExecuteMsg::WithdrawLiquidity {}, vec![self.stray_coin()])],
            (Target::PairCp | Target::PairStable | Target::Trio, "hostile_swap_zero_amount_with_coins") => match self.offer_of_kind(true) {
                // declares an offer of 0 and attaches coins of the offered denom
                Some((o, k)) => {
                    let attached = vec![coin((a / 10).max(1), asset_id(&o))];
                    match self.cfg.target {
                        Target::Trio => vec![wasm_exec(&self.trio, &trio::ExecuteMsg::Swap { offer_asset: self.asset(&o, 0), ask_asset: k, belief_price: None, max_spread: None, to: None }, attached)],
                        _ => vec![wasm_exec(&self.pair, &pair::ExecuteMsg::Swap { offer_asset: self.asset(&o, 0), belief_price: None, max_spread: None, to: None }, attached)],
                    }
                }
                None => vec![],
            },
            (Target::PairCp | Target::PairStable | Target::Trio, "hostile_provide_zero_amounts") => {
                let p = self.pool_assets();
                match self.cfg.target {
                    Target::Trio => vec![wasm_exec(&self.trio, &trio::ExecuteMsg::ProvideLiquidity { assets: [self.asset(&p[0], 0), self.asset(&p[1], 0), self.asset(&p[2], 0)], slippage_tolerance: None, receiver: None }, vec![])],
                    _ => vec![wasm_exec(&self.pair, &pair::ExecuteMsg::ProvideLiquidity { assets: [self.asset(&p[0], 0), self.asset(&p[1], 0)], slippage_tolerance: None, receiver: None }, vec![])],
                }
            }
            (Target::Vault, "hostile_deposit_zero_amount_with_coins") => {
                let funds = if Self::is_native(&self.a) { vec![coin((a / 10).max(1), asset_id(&self.a))] } else { vec![coin((a / 10).max(1), "uzzz")] };
                vec![wasm_exec(&self.vault, &vault::ExecuteMsg::Deposit { amount: Uint128::zero() }, funds)]
            }
            (Target::Vault, "hostile_flash_loan_zero_amount") => vec![wasm_exec(&self.borrower, &vh::ExecuteMsg::Run { program: vec![Action::Loan { vault: self.vault.clone(), amount: Uint128::zero(), program: vec![] }] }, vec![])],
            (Target::PairCp | Target::PairStable | Target::Trio, "swap_native_message") => match self.offer_of_kind(true) {
                Some((o, k)) => self.swap_msgs(&o, &k, a / 10, None),
                None => vec![],
            },
            (Target::PairCp | Target::PairStable | Target::Trio, "swap_cw20_hook") => match self.offer_of_kind(false) {
                Some((o, k)) => self.swap_msgs(&o, &k, a / 10, None),
                None => vec![],
            },
            (Target::PairCp | Target::PairStable | Target::Trio, "swap_to_receiver") => {
                let p = self.pool_assets();
                self.swap_msgs(&p[p.len() - 1], &p[0], a / 10, Some("bobby".into()))
            }
            (Target::PairCp | Target::PairStable, "swap_via_router_native") => match self.offer_of_kind(true) {
                Some((o, k)) => vec![wasm_exec(&self.router, &router::ExecuteMsg::ExecuteSwapOperations { operations: vec![SwapOperation::TerraSwap { offer_asset_info: o.clone(), ask_asset_info: k }], minimum_receive: None, to: None, max_spread: rt_spread }, vec![coin(a / 10, asset_id(&o))])],
                None => vec![],
            },
            (Target::PairCp | Target::PairStable, "swap_via_router_cw20") => match self.offer_of_kind(false) {
                Some((o, k)) => vec![wasm_exec(&asset_id(&o), &cw20::Cw20ExecuteMsg::Send { contract: self.router.clone(), amount: Uint128::new(a / 10), msg: to_json_binary(&router::Cw20HookMsg::ExecuteSwapOperations { operations: vec![SwapOperation::TerraSwap { offer_asset_info: o.clone(), ask_asset_info: k }], minimum_receive: None, to: None, max_spread: rt_spread }).unwrap() }, vec![])],
                None => vec![],
            },
            (Target::Trio, "withdraw_cw20_hook") => vec![wasm_exec(&self.trio_lp, &cw20::Cw20ExecuteMsg::Send { contract: self.trio.clone(), amount: Uint128::new(a / 4), msg: to_json_binary(&trio::Cw20HookMsg::WithdrawLiquidity {}).unwrap() }, vec![])],
            (Target::Trio, "hostile_withdraw_direct_message_with_coin") => vec![wasm_exec(&self.trio, &trio::ExecuteMsg::WithdrawLiquidity {}, vec![self.stray_coin()])],
            (Target::Vault, "deposit_direct") => {
                let (mut m, funds) = self.fund(&self.vault, &[(&self.a, a)]);
                m.push(wasm_exec(&self.vault, &vault::ExecuteMsg::Deposit { amount: Uint128::new(a) }, funds));
                m
            }
            (Target::Vault, "withdraw_cw20_hook") => vec![wasm_exec(&self.vault_lp, &cw20::Cw20ExecuteMsg::Send { contract: self.vault.clone(), amount: Uint128::new(a / 4), msg: to_json_binary(&vault::Cw20HookMsg::Withdraw {}).unwrap() }, vec![])],
            (Target::Vault, "hostile_withdraw_direct_message_with_coin") => vec![wasm_exec(&self.vault, &vault::ExecuteMsg::Withdraw {}, vec![if Self::is_native(&self.a) && a % 2 == 1 { coin((a / 8).clamp(1, 500), asset_id(&self.a)) } else { coin((a / 8).clamp(1, 500), "uzzz") }])],
            (Target::Vault, "flash_loan_direct") => {
                let amt = a / 10;
                let pay = amt + amt / 1000 + amt * 2 / 1000 + 3;
                vec![wasm_exec(&self.borrower, &vh::ExecuteMsg::Run { program: vec![Action::Loan { vault: self.vault.clone(), amount: Uint128::new(amt), program: vec![Action::Pay { to: self.vault.clone(), asset: self.a.clone(), amount: Uint128::new(pay) }] }] }, vec![])]
            }
            (Target::Vault, "withdraw_inside_flash_loan") => {
                // the user hands shares to the borrower, which withdraws them inside the callback of its own
                // loan and repays the loan, its fees and (generously) whatever the withdrawal took out
                let amt = a / 10;
                let shares = (a / 8).max(1);
                let pay = amt + amt / 1000 + amt * 2 / 1000 + 3 + 2 * shares;
                vec![
                    wasm_exec(&self.vault_lp, &cw20::Cw20ExecuteMsg::Transfer { recipient: self.borrower.clone(), amount: Uint128::new(shares) }, vec![]),
                    wasm_exec(&self.borrower, &vh::ExecuteMsg::Run { program: vec![Action::Loan { vault: self.vault.clone(), amount: Uint128::new(amt), program: vec![
                        Action::WithdrawShares { vault: self.vault.clone(), lp: self.vault_lp.clone(), amount: Uint128::new(shares) },
                        Action::Pay { to: self.vault.clone(), asset: self.a.clone(), amount: Uint128::new(pay) },
                    ] }] }, vec![]),
                ]
            }
            (Target::Vault, "flash_loan_via_router") => {
                let amt = a / 10;
                let fees = amt / 1000 + amt * 2 / 1000 + 3;
                vec![wasm_exec(&self.vault_router, &vault_router::ExecuteMsg::FlashLoan {
                    assets: vec![self.asset(&self.a, amt)],
                    msgs: vec![wasm_exec(&self.borrower, &vh::ExecuteMsg::Run { program: vec![Action::Pay { to: self.vault_router.clone(), asset: self.a.clone(), amount: Uint128::new(fees) }] }, vec![])],
                }, vec![])]
            }
            _ => vec![],
        }
    }
    fn set_toggles(&mut self, bits: u8) -> TxResult {
        let d = bits & 1 != 0;
        let w = bits & 2 != 0;
        let s = bits & 4 != 0;
        let f = fee3v(self.cfg.fee_variant);
        let comb = self.cfg.combined;
        let msg = match self.cfg.target {
            Target::PairCp | Target::PairStable => wasm_exec(&self.pool_factory, &factory::ExecuteMsg::UpdatePairConfig { pair_addr: self.pair.clone(), owner: None, fee_collector_addr: if comb { Some(COLLECTOR.into()) } else { None }, pool_fees: if comb { Some(pair::PoolFee { protocol_fee: f[0].clone(), swap_fee: f[1].clone(), burn_fee: f[2].clone() }) } else { None }, feature_toggle: Some(pair::FeatureToggle { withdrawals_enabled: w, deposits_enabled: d, swaps_enabled: s }) }, vec![]),
            Target::Trio => wasm_exec(&self.pool_factory, &factory::ExecuteMsg::UpdateTrioConfig { trio_addr: self.trio.clone(), owner: None, fee_collector_addr: if comb { Some(COLLECTOR.into()) } else { None }, pool_fees: if comb { Some(trio::PoolFee { protocol_fee: f[0].clone(), swap_fee: f[1].clone(), burn_fee: f[2].clone() }) } else { None }, feature_toggle: Some(trio::FeatureToggle { withdrawals_enabled: w, deposits_enabled: d, swaps_enabled: s }), amp_factor: if comb { Some(trio::RampAmp { future_a: if bits == 7 { 100 } else { 150 + bits as u64 }, future_block: height(&self.app) + 10_000 + bits as u64 }) } else { None } }, vec![]),
            Target::Vault => {
                if let Some(order) = self.cfg.partial_order {
                    // three partial updates, one flag each; an update must not touch the other flags
                    const P: [[usize; 3]; 6] = [[0, 1, 2], [0, 2, 1], [1, 0, 2], [1, 2, 0], [2, 0, 1], [2, 1, 0]];
                    let mut last = None;
                    for which in P[(order % 6) as usize] {
                        let params = vault::UpdateConfigParams {
                            flash_loan_enabled: if which == 2 { Some(s) } else { None },
                            deposit_enabled: if which == 0 { Some(d) } else { None },
                            withdraw_enabled: if which == 1 { Some(w) } else { None },
                            new_owner: None,
                            new_vault_fees: None,
                            new_fee_collector_addr: None,
                        };
                        let m = wasm_exec(&self.vault_factory, &vault_factory::ExecuteMsg::UpdateVaultConfig { vault_addr: self.vault.clone(), params }, vec![]);
                        let r = tx(&mut self.app, OWNER, vec![m], Fault::None);
                        if !r.outcome.is_ok() {
                            return r;
                        }
                        last = Some(r);
                    }
                    return last.unwrap();
                }
                wasm_exec(&self.vault_factory, &vault_factory::ExecuteMsg::UpdateVaultConfig { vault_addr: self.vault.clone(), params: vault::UpdateConfigParams { flash_loan_enabled: Some(s), deposit_enabled: Some(d), withdraw_enabled: Some(w), new_owner: None, new_vault_fees: if comb { Some(VaultFee { protocol_fee: f[0].clone(), flash_loan_fee: f[1].clone(), burn_fee: f[2].clone() }) } else { None }, new_fee_collector_addr: if comb { Some(COLLECTOR.into()) } else { None } } }, vec![])
            }
        };
        tx(&mut self.app, OWNER, vec![msg], Fault::None)
    }
    /// what the pool quotes for a fixed small swap (None for the vault or when the query fails)
    fn quote(&self) -> Option<String> {
        let a = (self.cfg.amount / 10).max(1);
        match self.cfg.target {
            Target::PairCp | Target::PairStable => query::<pair::SimulationResponse, _>(&self.app, &self.pair, &pair::QueryMsg::Simulation { offer_asset: self.asset(&self.a, a) }).ok().map(|r| format!("{r:?}")),
            Target::Trio => query::<trio::SimulationResponse, _>(&self.app, &self.trio, &trio::QueryMsg::Simulation { offer_asset: self.asset(&self.a, a), ask_asset: self.asset(&self.c, 0) }).ok().map(|r| format!("{r:?}")),
            Target::Vault => None,
        }
    }
    fn flags(&self) -> Option<[bool; 3]> {
        match self.cfg.target {
            Target::PairCp | Target::PairStable => query::<pair::ConfigResponse, _>(&self.app, &self.pair, &pair::QueryMsg::Config {}).ok().map(|c| [c.feature_toggle.deposits_enabled, c.feature_toggle.withdrawals_enabled, c.feature_toggle.swaps_enabled]),
            Target::Trio => query::<trio::ConfigResponse, _>(&self.app, &self.trio, &trio::QueryMsg::Config {}).ok().map(|c| [c.feature_toggle.deposits_enabled, c.feature_toggle.withdrawals_enabled, c.feature_toggle.swaps_enabled]),
            Target::Vault => query::<vault::Config, _>(&self.app, &self.vault, &vault::QueryMsg::Config {}).ok().map(|c| [c.deposit_enabled, c.withdraw_enabled, c.flash_loan_enabled]),
        }
    }
}

fn is_disabled_error(e: &str) -> bool {
    e.contains("Operation disabled,") || e.contains("Deposits are not enabled") || e.contains("Withdrawals are not enabled") || e.contains("Flash-loans are not enabled")
}

impl Scenario for Toggle {
    const NAME: &'static str = "TOGGLE";
    type Cfg = Cfg;
    type Step = Step;

    fn gen_cfg(rng: &mut Rng, _prop: &str, _tier: Tier, idx: u64) -> Cfg {
        let kinds = ((idx % n_cases()) / 64) as u8;
        let i = idx % 64;
        let target = match i / 16 {
            0 => Target::PairCp,
            1 => Target::PairStable,
            2 => Target::Trio,
            _ => Target::Vault,
        };
        let amount = rng.range128(200_000, 5_000_000_000);
        let partial_order = if rng.chance(1, 2) { Some(rng.below(6) as u8) } else { None };
        let combined = rng.chance(1, 2);
        Cfg { target, bits: ((i / 2) % 8) as u8, funded: i % 2 == 1, amount, case_index: i, partial_order, combined, fee_variant: if rng.chance(1, 2) { 0 } else { rng.below(4) as u8 }, kinds }
    }

    fn max_steps(_cfg: &Cfg) -> usize {
        64
    }

    fn build(cfg: &Cfg, ctx: &mut Ctx) -> Self {
        let big = 10u128.pow(15);
        let wallet = || vec![coin(big, "uaaa"), coin(big, "ubbb"), coin(big, "uccc"), coin(big, "uzzz")];
        let mut app = new_app(&[(USER, wallet()), (OWNER, wallet())]);
        let token_code = app.store_code(code::token());
        let pair_code = app.store_code(code::pair());
        let trio_code = app.store_code(code::trio());
        let pf_code = app.store_code(code::pool_factory());
        let rt_code = app.store_code(code::pool_router());
        let vault_code = app.store_code(code::vault());
        let vf_code = app.store_code(code::vault_factory());
        let vr_code = app.store_code(code::vault_router());
        let b_code = app.store_code(vh::borrower_code());
        let if_code = app.store_code(code::incentive_factory());
        let inc_code = app.store_code(code::incentive());
        let fd_code = app.store_code(code::fee_distributor_mock());
        let fh_code = app.store_code(code::frontend_helper());
        let tok = new_cw20(&mut app, token_code, "TKB", 6, OWNER, &[(USER, big), (OWNER, big)]);
        let (a_native, a_token, c_native) = match cfg.kinds % 4 {
            0 => (native("uaaa"), token(&tok), native("uccc")),
            1 => (native("uaaa"), native("ubbb"), native("uccc")),
            k => {
                let tka = new_cw20(&mut app, token_code, "TKA", 6, OWNER, &[(USER, big), (OWNER, big)]);
                let tkc = new_cw20(&mut app, token_code, "TKC", 6, OWNER, &[(USER, big), (OWNER, big)]);
                (token(&tka), if k == 2 { token(&tok) } else { native("ubbb") }, token(&tkc))
            }
        };
        let pool_factory = must_instantiate(&mut app, pf_code, OWNER, &factory::InstantiateMsg { pair_code_id: pair_code, trio_code_id: trio_code, token_code_id: token_code, fee_collector_addr: COLLECTOR.into() }, "pf", None);
        for d in ["uaaa", "ubbb", "uccc"] {
            must_exec(&mut app, OWNER, &pool_factory, &factory::ExecuteMsg::AddNativeTokenDecimals { denom: d.into(), decimals: 6 }, vec![coin(1, d)]);
        }
        let f = fee3v(cfg.fee_variant);
        let pair_type = if cfg.target == Target::PairStable { PairType::StableSwap { amp: 100 } } else { PairType::ConstantProduct };
        must_exec(&mut app, OWNER, &pool_factory, &factory::ExecuteMsg::CreatePair { asset_infos: [a_native.clone(), a_token.clone()], pool_fees: pair::PoolFee { protocol_fee: f[0].clone(), swap_fee: f[1].clone(), burn_fee: f[2].clone() }, pair_type, token_factory_lp: false }, vec![]);
        must_exec(&mut app, OWNER, &pool_factory, &factory::ExecuteMsg::CreateTrio { asset_infos: [a_native.clone(), a_token.clone(), c_native.clone()], pool_fees: trio::PoolFee { protocol_fee: f[0].clone(), swap_fee: f[1].clone(), burn_fee: f[2].clone() }, amp_factor: 100, token_factory_lp: false }, vec![]);
        let pi: PairInfo = query(&app, &pool_factory, &factory::QueryMsg::Pair { asset_infos: [a_native.clone(), a_token.clone()] }).expect("pair");
        let ti: TrioInfo = query(&app, &pool_factory, &factory::QueryMsg::Trio { asset_infos: [a_native.clone(), a_token.clone(), c_native.clone()] }).expect("trio");
        let router = must_instantiate(&mut app, rt_code, OWNER, &router::InstantiateMsg { terraswap_factory: pool_factory.clone() }, "router", Some(OWNER));
        let vault_factory = must_instantiate(&mut app, vf_code, OWNER, &vault_factory::InstantiateMsg { owner: OWNER.into(), vault_id: vault_code, token_id: token_code, fee_collector_addr: COLLECTOR.into() }, "vf", None);
        must_exec(&mut app, OWNER, &vault_factory, &vault_factory::ExecuteMsg::CreateVault { asset_info: a_native.clone(), fees: VaultFee { protocol_fee: f[0].clone(), flash_loan_fee: f[1].clone(), burn_fee: f[2].clone() }, token_factory_lp: false }, vec![]);
        let vault_addr: Option<String> = query(&app, &vault_factory, &vault_factory::QueryMsg::Vault { asset_info: a_native.clone() }).expect("vault");
        let vault_addr = vault_addr.expect("vault addr");
        let vc: vault::Config = query(&app, &vault_addr, &vault::QueryMsg::Config {}).expect("vault cfg");
        let vault_router = must_instantiate(&mut app, vr_code, OWNER, &vault_router::InstantiateMsg { owner: OWNER.into(), vault_factory_addr: vault_factory.clone() }, "vr", None);
        let borrower = must_instantiate(&mut app, b_code, OWNER, &cosmwasm_std::Empty {}, "borrower", None);
        let prefund = match &a_native {
            AssetInfo::NativeToken { denom } => bank_send(&borrower, 10u128.pow(12), denom),
            AssetInfo::Token { contract_addr } => wasm_exec(contract_addr, &cw20::Cw20ExecuteMsg::Transfer { recipient: borrower.clone(), amount: Uint128::new(10u128.pow(12)) }, vec![]),
        };
        let r = tx(&mut app, OWNER, vec![prefund], Fault::None);
        assert!(r.outcome.is_ok());
        let fd = must_instantiate(&mut app, fd_code, OWNER, &fee_distributor_mock::msg::InstantiateMsg {}, "fdmock", None);
        let inc_factory = must_instantiate(&mut app, if_code, OWNER, &incentive_factory::InstantiateMsg { fee_collector_addr: COLLECTOR.into(), fee_distributor_addr: fd, create_flow_fee: Asset { info: native("uccc"), amount: Uint128::new(1000) }, max_concurrent_flows: 5, incentive_code_id: inc_code, max_flow_epoch_buffer: 14, min_unbonding_duration: 86_400, max_unbonding_duration: 31_536_000 }, "if", None);
        must_exec(&mut app, OWNER, &inc_factory, &incentive_factory::ExecuteMsg::CreateIncentive { lp_asset: pi.liquidity_token.clone() }, vec![]);
        let helper = must_instantiate(&mut app, fh_code, OWNER, &frontend_helper::InstantiateMsg { incentive_factory: inc_factory }, "helper", None);
        let mut s = Toggle {
            cfg: cfg.clone(),
            app,
            a: a_native,
            b: a_token,
            c: c_native,
            pool_factory,
            router,
            pair: pi.contract_addr,
            pair_lp: asset_id(&pi.liquidity_token),
            trio: ti.contract_addr,
            trio_lp: asset_id(&ti.liquidity_token),
            helper,
            vault_factory,
            vault: vault_addr,
            vault_lp: asset_id(&vc.lp_asset),
            vault_router,
            borrower,
            script: vec![],
            pos: 0,
            toggled: false,
            reenabled: false,
        };
        // new pools and vaults start with everything enabled
        ctx.eval("C17");
        if s.flags() != Some([true, true, true]) {
            ctx.fail("C17", "fresh_all_enabled", "flags", None, format!("{:?}: fresh contract reports flags {:?}", cfg.target, s.flags()));
        }
        if cfg.funded {
            // liquidity from the user through the direct path, with everything enabled
            let mut c2 = cfg.clone();
            c2.amount = 10u128.pow(10);
            let saved = std::mem::replace(&mut s.cfg, c2);
            let first = paths(&saved.target)[0].1;
            let msgs = s.path_msgs(first);
            let r = tx(&mut s.app, USER, msgs, Fault::None);
            if !r.outcome.is_ok() {
                panic!("harness: funding {:?} failed: {}", saved.target, r.outcome.err_text());
            }
            s.cfg = saved;
        }
        if cfg.funded && cfg.target == Target::Trio {
            // an amplification ramp started earlier is still running when the switches are used
            let h0 = height(&s.app);
            let msg = wasm_exec(&s.pool_factory, &factory::ExecuteMsg::UpdateTrioConfig { trio_addr: s.trio.clone(), owner: None, fee_collector_addr: None, pool_fees: None, feature_toggle: None, amp_factor: Some(trio::RampAmp { future_a: 400, future_block: h0 + 20_000 }) }, vec![]);
            let r = tx(&mut s.app, OWNER, vec![msg], Fault::None);
            if !r.outcome.is_ok() {
                panic!("harness: starting a ramp failed: {}", r.outcome.err_text());
            }
            let t = now_ns(&s.app);
            set_clock(&mut s.app, t + 7_000 * 6_000_000_000, h0 + 7_000);
            ctx.probe("ramp_in_progress_while_toggling");
        }
        // script: every path under the configured toggles, then every path again after re-enabling
        let n = paths(&cfg.target).len();
        for p in 0..n {
            s.script.push(Step { phase: Phase::Toggled, path: p });
        }
        for p in 0..n {
            s.script.push(Step { phase: Phase::Reenabled, path: p });
        }
        s
    }

    fn gen_step(&mut self, _rng: &mut Rng, _ctx: &mut Ctx) -> Option<Step> {
        let st = self.script.get(self.pos).cloned();
        self.pos += 1;
        st
    }

    fn apply(&mut self, step: &Step, ctx: &mut Ctx) {
        let table = paths(&self.cfg.target);
        let Some((need, name)) = table.get(step.path).cloned() else { return };
        let bits = match step.phase {
            Phase::Toggled => {
                if !self.toggled {
                    let q0 = self.quote();
                    let r = self.set_toggles(self.cfg.bits);
                    // switching operations off and on must not reprice the pool
                    if self.cfg.funded && r.outcome.is_ok() && self.quote() != q0 && q0.is_some() {
                        ctx.fail("C17", "toggle_update", "quote_changed_by_toggle_update", None, format!("the same Simulation answered {:?} before and {:?} after setting the toggles {:03b}", q0, self.quote(), self.cfg.bits));
                    }
                    if !r.outcome.is_ok() {
                        ctx.fail("C17", "toggle_update", "owner_update_failed", None, format!("setting toggles {:03b} failed: {}", self.cfg.bits, r.outcome.err_text()));
                    }
                    self.toggled = true;
                    let want = [self.cfg.bits & 1 != 0, self.cfg.bits & 2 != 0, self.cfg.bits & 4 != 0];
                    if self.flags() != Some(want) {
                        ctx.fail("C17", "toggle_update", "flags_not_stored", None, format!("flags {:?} after setting {:?}", self.flags(), want));
                    }
                    // an unrelated configuration update must leave the flags alone
                    let f = fee3v(self.cfg.fee_variant);
                    let msg = match self.cfg.target {
                        Target::PairCp | Target::PairStable => wasm_exec(&self.pool_factory, &factory::ExecuteMsg::UpdatePairConfig { pair_addr: self.pair.clone(), owner: None, fee_collector_addr: Some(COLLECTOR.into()), pool_fees: Some(pair::PoolFee { protocol_fee: f[0].clone(), swap_fee: f[1].clone(), burn_fee: f[2].clone() }), feature_toggle: None }, vec![]),
                        Target::Trio => wasm_exec(&self.pool_factory, &factory::ExecuteMsg::UpdateTrioConfig { trio_addr: self.trio.clone(), owner: None, fee_collector_addr: Some(COLLECTOR.into()), pool_fees: Some(trio::PoolFee { protocol_fee: f[0].clone(), swap_fee: f[1].clone(), burn_fee: f[2].clone() }), feature_toggle: None, amp_factor: None }, vec![]),
                        Target::Vault => wasm_exec(&self.vault_factory, &vault_factory::ExecuteMsg::UpdateVaultConfig { vault_addr: self.vault.clone(), params: vault::UpdateConfigParams { flash_loan_enabled: None, deposit_enabled: None, withdraw_enabled: None, new_owner: None, new_vault_fees: Some(VaultFee { protocol_fee: f[0].clone(), flash_loan_fee: f[1].clone(), burn_fee: f[2].clone() }), new_fee_collector_addr: Some(COLLECTOR.into()) } }, vec![]),
                    };
                    let r = tx(&mut self.app, OWNER, vec![msg], Fault::None);
                    if !r.outcome.is_ok() {
                        ctx.fail("C17", "toggle_update", "unrelated_update_failed", None, r.outcome.err_text());
                    } else if self.flags() != Some(want) {
                        ctx.fail("C17", "toggle_update", "flags_changed_by_unrelated_update", None, format!("flags {:?} after a fee-only update, expected {:?}", self.flags(), want));
                    }
                }
                self.cfg.bits
            }
            Phase::Reenabled => {
                if !self.reenabled {
                    let q0 = self.quote();
                    let r = self.set_toggles(7);
                    if self.cfg.funded && r.outcome.is_ok() && self.quote() != q0 && q0.is_some() {
                        ctx.fail("C17", "toggle_update", "quote_changed_by_toggle_update", None, format!("the same Simulation answered {:?} before and {:?} after re-enabling everything", q0, self.quote()));
                    }
                    if !r.outcome.is_ok() {
                        ctx.fail("C17", "toggle_update", "reenable_failed", None, r.outcome.err_text());
                    }
                    self.reenabled = true;
                }
                7
            }
        };
        let enabled = bits & need == need;
        let msgs = self.path_msgs(name);
        if msgs.is_empty() {
            // this entry path does not exist for the asset kinds of this case
            ctx.trace(&format!("{:?}/{name}:{:?}:n/a", self.cfg.target, step.phase));
            return;
        }
        let fp0 = fingerprint(&self.app);
        let r = tx(&mut self.app, USER, msgs, Fault::None);
        let fp1 = fingerprint(&self.app);
        let opname = format!("{:?}/{name}", self.cfg.target);
        ctx.op(&opname, r.outcome.kind());
        ctx.trace(&format!("{opname}:{:?}:{}", step.phase, r.outcome.kind()));
        ctx.eval("C17");
        let e = r.outcome.err_text();
        if !enabled {
            ctx.probe(if hostile(name) { "disabled_hostile_path_exercised" } else { "disabled_path_exercised" });
            if r.outcome.is_ok() {
                ctx.fail("C17", "disabled_op_rejected", name, None, format!("{opname} succeeded although its operation is disabled (toggles {:03b}, funded {})", bits, self.cfg.funded));
            } else if fp0 != fp1 {
                ctx.fail("C17", "disabled_op_no_effect", name, None, format!("{opname} was rejected but the chain state changed"));
            }
        } else {
            if !r.outcome.is_ok() && is_disabled_error(&e) {
                ctx.fail("C17", "enabled_op_not_refused_as_disabled", name, None, format!("{opname} refused as disabled although its flag is on (toggles {:03b}): {e}", bits));
            }
            // with liquidity present every enabled path is constructed to succeed
            if self.cfg.funded && !r.outcome.is_ok() && !hostile(name) {
                ctx.fail("C17", "other_ops_keep_working", name, None, format!("{opname} failed with its flag on (toggles {:03b}, phase {:?}): {e}", bits, step.phase));
            }
            if r.outcome.is_ok() && !hostile(name) {
                ctx.state_of(&format!("{}:{}:{}:{}:{:?}", self.cfg.kinds, self.cfg.case_index, name, self.cfg.amount, step.phase));
                ctx.probe("enabled_path_succeeded");
            }
        }
    }

    fn sim_clock(&self) -> (u64, u64) {
        (0, 0)
    }
}
