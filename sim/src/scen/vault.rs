//! VAULT: vault factory + two vaults + vault router + adversarial borrower, >=3 depositors.
//! Serves C05 C06 and the vault parts of C07 C14.

use cosmwasm_std::{coin, to_json_binary, Coin, CosmosMsg, Decimal, Uint128};
use serde::{Deserialize, Serialize};
use std::str::FromStr;

use white_whale_std::fee::{Fee, VaultFee};
use white_whale_std::pool_network::asset::{Asset, AssetInfo};
use white_whale_std::vault_network::{vault, vault_factory, vault_router};

use crate::big::*;
use crate::core::{Ctx, Scenario, Tier};
use crate::rng::Rng;
use crate::scen::vault_helpers::{self as vh, Action};
use crate::world::*;

pub const OWNER: &str = "owner";
pub const COLLECTOR: &str = "collector";
pub const COLLECTOR2: &str = "collectorb";
pub const USERS: [&str; 5] = ["alice", "bobby", "carol", "david", "erin0"];

#[derive(Serialize, Deserialize, Clone, Debug, PartialEq)]
#[serde(rename_all = "snake_case")]
pub enum Kind {
    Native,
    Cw20,
}

#[derive(Serialize, Deserialize, Clone, Debug)]
pub struct Cfg {
    pub kind: Kind,
    /// protocol, flash-loan, burn
    pub fees: [String; 3],
    pub user_funds: u128,
    pub n_users: usize,
    pub max_steps: usize,
    pub faults: bool,
    /// deposit, withdraw, loan, collect, setfees, donate, depwd
    pub weights: [u32; 7],
    /// enumeration mode (C06): first program index and number of programs handled by this run
    pub enum_from: Option<u64>,
    pub enum_count: u64,
    pub enum_depth: u32,
    /// the borrower contract is the owner (operator) of the vault factory: it can change the vault's
    /// configuration from inside its own loan callback
    #[serde(default)]
    pub operator_borrower: bool,
}

/// symbolic borrower behaviour, concretised against the current quote
#[derive(Clone, Debug, PartialEq)]
pub enum Sym {
    RepayExact,
    RepayMinus1,
    RepayPlus,
    Nothing,
    Fail,
    Deposit,
    Withdraw,
    Collect,
    /// hostile: the borrower calls the vault's AfterTrade callback itself
    ExternalAfterTrade,
    /// nested loan: same vault or the other vault
    Nested(bool, Vec<Sym>),
}

#[derive(Serialize, Deserialize, Clone, Debug, PartialEq)]
#[serde(rename_all = "snake_case")]
pub enum Op {
    Deposit { amount: u128, sent: u128 },
    Withdraw { lp: u128 },
    /// flash loan on vault 0 taken by the borrower contract (direct) or by the user through the router
    Loan { router: bool, amount: u128, program: Vec<Action> },
    /// flash loan through the router with coins attached to the router's FlashLoan message itself: `attach`
    /// of the vault asset (native vault) and/or `junk` of a foreign denom; the payload pays `pay` into the router
    RouterLoanCoins { amount: u128, pay: u128, attach: u128, junk: u128 },
    Collect,
    SetFees { fees: [String; 3] },
    /// the operator re-points the vault's fee collector address
    SetCollector { second: bool },
    Donate { amount: u128 },
    DepositWithdraw { amount: u128 },
    /// Deposit with a coin of a foreign denom attached next to (or instead of) the vault asset
    DepositWithJunk { amount: u128, sent: u128, junk: u128 },
    /// hostile: Withdraw {} (token-factory entry point) called directly with a native coin attached
    WithdrawDirect { junk: bool, amount: u128 },
}

#[derive(Serialize, Deserialize, Clone, Debug, PartialEq)]
pub struct Step {
    pub actor: usize,
    pub op: Op,
    pub adv: u32,
    pub fault: Fault,
}

#[derive(Default, Clone, Debug)]
pub struct Model {
    pub charged: u128,
    pub received: u128,
    pub burned: u128,
    pub seeded: bool,
    pub enum_next: u64,
    /// scripted steps to emit before anything else (exit-all followed by a deposit)
    pub queue: Vec<Step>,
}

pub struct VaultScen {
    pub cfg: Cfg,
    pub app: SimApp,
    pub asset: AssetInfo,
    pub asset1: AssetInfo,
    pub factory: String,
    pub router: String,
    pub vault: String,
    pub vault1: String,
    pub lp: String,
    pub lp1: String,
    pub borrower: String,
    pub fee18: [u128; 3],
    pub blocks: u64,
    pub model: Model,
    pub collector_now: String,
    /// foreign coins the next deposit message carries in addition
    pub junk_next: std::cell::Cell<u128>,
}

#[derive(Clone, Debug)]
pub struct Obs {
    pub bal: u128,
    pub pending: u128,
    pub all_time: u128,
    pub burned: u128,
    pub share: u128,
    pub lp_vault: u128,
    pub users: Vec<u128>,
    pub users_lp: Vec<u128>,
    pub collector: u128,
    /// the collector address the vault is NOT configured with
    pub other_collector: u128,
    pub borrower: u128,
    pub borrower_lp: u128,
    pub router_bal: u128,
    pub supply: u128,
    pub loan_counter: u32,
    // vault 1
    pub bal1: u128,
    pub pending1: u128,
    pub share1: u128,
    pub loan_counter1: u32,
    pub supply1: u128,
    pub burned1: u128,
}

pub fn vault_fee(f: &[String; 3]) -> VaultFee {
    VaultFee {
        protocol_fee: Fee { share: Decimal::from_str(&f[0]).unwrap() },
        flash_loan_fee: Fee { share: Decimal::from_str(&f[1]).unwrap() },
        burn_fee: Fee { share: Decimal::from_str(&f[2]).unwrap() },
    }
}

fn gen_fees(rng: &mut Rng) -> [String; 3] {
    let pick = |rng: &mut Rng| -> u128 {
        match rng.below(9) {
            0 => 0,
            1 => 1,
            2 => E18 / 1000,
            3 => E18 / 100,
            4 => rng.range128(0, E18 / 10),
            5 => rng.range128(0, E18 / 3 - 1),
            _ => rng.range128(0, E18 / 50),
        }
    };
    let mut f = [pick(rng), pick(rng), pick(rng)];
    if rng.chance(1, 25) {
        let a = rng.range128(0, E18 - 1);
        let b = rng.range128(0, E18 - 1 - a);
        f = [a, b, E18 - 1 - a - b];
    }
    [atomics_to_dec(f[0]), atomics_to_dec(f[1]), atomics_to_dec(f[2])]
}

// ---- enumeration of symbolic programs -----------------------------------------------------

const BASE: [Sym; 9] = [
    Sym::RepayExact,
    Sym::RepayMinus1,
    Sym::RepayPlus,
    Sym::Nothing,
    Sym::Fail,
    Sym::Deposit,
    Sym::Withdraw,
    Sym::Collect,
    Sym::ExternalAfterTrade,
];

/// number of atoms at `depth` (depth 1 = no nesting)
fn n_atoms(depth: u32) -> u64 {
    if depth <= 1 {
        9
    } else {
        // nested(same|other, prog of depth-1 with len<=2)
        9 + 2 * n_progs(depth - 1, 2)
    }
}
pub fn n_progs(depth: u32, maxlen: u32) -> u64 {
    let a = n_atoms(depth);
    let mut tot = 0u64;
    let mut p = 1u64;
    for _ in 0..maxlen {
        p = p.saturating_mul(a);
        tot = tot.saturating_add(p);
    }
    tot
}
fn atom_at(depth: u32, mut i: u64) -> Sym {
    if i < 9 {
        return BASE[i as usize].clone();
    }
    i -= 9;
    let inner = n_progs(depth - 1, 2);
    let same = i < inner;
    let j = if same { i } else { i - inner };
    Sym::Nested(same, prog_at(depth - 1, 2, j))
}
pub fn prog_at(depth: u32, maxlen: u32, mut i: u64) -> Vec<Sym> {
    let a = n_atoms(depth);
    let mut len = 1;
    let mut p = a;
    while len < maxlen && i >= p {
        i -= p;
        p = p.saturating_mul(a);
        len += 1;
    }
    let mut out = vec![];
    for _ in 0..len {
        out.push(atom_at(depth, i % a));
        i /= a;
    }
    out
}

/// number of runs needed to enumerate the program space for both asset kinds
pub fn enum_runs() -> u64 {
    2 * ((enum_space(2) + 23) / 24)
}

/// size of the enumerated space: (direct, router) x programs
pub fn enum_space(depth: u32) -> u64 {
    // direct: all programs of `depth` with len<=2, plus depth-1 programs of len 3; router: depth-1 programs len<=2
    n_progs(depth, 2) + n_atoms(1).pow(3) + n_progs(1, 2)
}

impl VaultScen {
    pub fn user(&self, i: usize) -> &'static str {
        USERS[i % self.cfg.n_users]
    }
    fn fee_of3(&self, amount: u128) -> [u128; 3] {
        [fee_of(self.fee18[0], amount), fee_of(self.fee18[1], amount), fee_of(self.fee18[2], amount)]
    }
    fn fee1_of3(&self, amount: u128) -> [u128; 3] {
        // vault1 has fixed fees 0.1% / 0.2% / 0.05%
        [fee_of(E18 / 1000, amount), fee_of(2 * E18 / 1000, amount), fee_of(E18 / 2000, amount)]
    }
    pub fn concretise(&self, prog: &[Sym], vault_idx: usize, amount: u128) -> Vec<Action> {
        let (vault, lp, asset, fees) = if vault_idx == 0 {
            (&self.vault, &self.lp, &self.asset, self.fee_of3(amount))
        } else {
            (&self.vault1, &self.lp1, &self.asset1, self.fee1_of3(amount))
        };
        let payback = amount.saturating_add(fees[0]).saturating_add(fees[1]).saturating_add(fees[2]);
        let mut out = vec![];
        for s in prog {
            match s {
                Sym::RepayExact => out.push(Action::Pay { to: vault.clone(), asset: asset.clone(), amount: Uint128::new(payback) }),
                Sym::RepayMinus1 => out.push(Action::Pay { to: vault.clone(), asset: asset.clone(), amount: Uint128::new(payback.saturating_sub(1)) }),
                Sym::RepayPlus => out.push(Action::Pay { to: vault.clone(), asset: asset.clone(), amount: Uint128::new(payback.saturating_add(7)) }),
                Sym::Nothing => out.push(Action::Pay { to: vault.clone(), asset: asset.clone(), amount: Uint128::zero() }),
                Sym::Fail => out.push(Action::Fail {}),
                Sym::Deposit => out.push(Action::Deposit { vault: vault.clone(), asset: asset.clone(), amount: Uint128::new(5000) }),
                Sym::Withdraw => out.push(Action::WithdrawShares { vault: vault.clone(), lp: lp.clone(), amount: Uint128::new(700) }),
                Sym::Collect => out.push(Action::CollectFees { vault: vault.clone() }),
                Sym::ExternalAfterTrade => out.push(Action::CallAfterTrade { vault: vault.clone(), old_balance: Uint128::zero(), loan_amount: Uint128::zero() }),
                Sym::Nested(same, inner) => {
                    let v2 = if *same { vault_idx } else { 1 - vault_idx };
                    let a2 = (amount / 2).max(1);
                    let vaddr = if v2 == 0 { &self.vault } else { &self.vault1 };
                    out.push(Action::Loan { vault: vaddr.clone(), amount: Uint128::new(a2), program: self.concretise(inner, v2, a2) });
                }
            }
        }
        out
    }
    pub fn observe(&self) -> Result<Obs, String> {
        let q = |v: &str, all: bool| -> Result<u128, String> {
            query::<vault::ProtocolFeesResponse, _>(&self.app, v, &vault::QueryMsg::ProtocolFees { all_time: all }).map(|r| r.fees.amount.u128())
        };
        let b = |v: &str| -> Result<u128, String> {
            query::<vault::ProtocolFeesResponse, _>(&self.app, v, &vault::QueryMsg::BurnedFees {}).map(|r| r.fees.amount.u128())
        };
        let n = self.cfg.n_users;
        let lpi = token(&self.lp);
        Ok(Obs {
            bal: balance(&self.app, &self.vault, &self.asset),
            pending: q(&self.vault, false)?,
            all_time: q(&self.vault, true)?,
            burned: b(&self.vault)?,
            share: cw20_supply(&self.app, &self.lp),
            lp_vault: balance(&self.app, &self.vault, &lpi),
            users: (0..n).map(|i| balance(&self.app, USERS[i], &self.asset)).collect(),
            users_lp: (0..n).map(|i| balance(&self.app, USERS[i], &lpi)).collect(),
            collector: balance(&self.app, &self.collector_now, &self.asset),
            other_collector: balance(&self.app, if self.collector_now == COLLECTOR { COLLECTOR2 } else { COLLECTOR }, &self.asset),
            borrower: balance(&self.app, &self.borrower, &self.asset),
            borrower_lp: balance(&self.app, &self.borrower, &lpi),
            router_bal: balance(&self.app, &self.router, &self.asset),
            supply: supply(&self.app, &self.asset),
            loan_counter: raw::<u32>(&self.app, &self.vault, b"loan_counter").unwrap_or(u32::MAX),
            bal1: balance(&self.app, &self.vault1, &self.asset1),
            pending1: q(&self.vault1, false)?,
            share1: cw20_supply(&self.app, &self.lp1),
            loan_counter1: raw::<u32>(&self.app, &self.vault1, b"loan_counter").unwrap_or(u32::MAX),
            supply1: supply(&self.app, &self.asset1),
            burned1: b(&self.vault1)?,
        })
    }
    fn deposit_msgs(&self, vault: &str, asset: &AssetInfo, amount: u128, sent: u128) -> Vec<CosmosMsg> {
        let mut v = vec![];
        let funds: Vec<Coin> = match asset {
            AssetInfo::NativeToken { denom } => {
                let mut f = if sent > 0 { vec![coin(sent, denom)] } else { vec![] };
                if self.junk_next.get() > 0 {
                    f.push(coin(self.junk_next.get(), "ujunk"));
                    f.sort_by(|a, b| a.denom.cmp(&b.denom));
                }
                f
            }
            AssetInfo::Token { contract_addr } => {
                if sent > 0 {
                    v.push(wasm_exec(contract_addr, &cw20::Cw20ExecuteMsg::IncreaseAllowance { spender: vault.to_string(), amount: Uint128::new(sent), expires: None }, vec![]));
                }
                vec![]
            }
        };
        v.push(wasm_exec(vault, &vault::ExecuteMsg::Deposit { amount: Uint128::new(amount) }, funds));
        v
    }
    fn withdraw_msg(&self, lp: u128) -> CosmosMsg {
        wasm_exec(&self.lp, &cw20::Cw20ExecuteMsg::Send { contract: self.vault.clone(), amount: Uint128::new(lp), msg: to_json_binary(&vault::Cw20HookMsg::Withdraw {}).unwrap() }, vec![])
    }
    pub fn advance(&mut self, blocks: u32) {
        if blocks > 0 {
            let t = now_ns(&self.app) + 6_000_000_000 * blocks as u64;
            let h = height(&self.app) + blocks as u64;
            set_clock(&mut self.app, t, h);
            self.blocks += blocks as u64;
        }
    }
}

fn obs_key(o: &Obs) -> String {
    format!("{}|{}|{}|{:?}|{}", o.bal, o.pending, o.share, o.users_lp, o.borrower_lp)
}

/// loans contained in a concrete program: (vault idx, amount, nested-in-same-vault-loan)
pub fn loans_in(s: &VaultScen, prog: &[Action], enclosing: &[usize], out: &mut Vec<(usize, u128, bool)>) {
    for a in prog {
        if let Action::Loan { vault, amount, program } | Action::LoanWithCoins { vault, amount, program, .. } = a {
            let idx = if *vault == s.vault { 0 } else { 1 };
            out.push((idx, amount.u128(), enclosing.contains(&idx)));
            let mut e = enclosing.to_vec();
            e.push(idx);
            loans_in(s, program, &e, out);
        }
        if let Action::RouterLoan { amount, payload, .. } = a {
            out.push((0, amount.u128(), enclosing.contains(&0)));
            let mut e = enclosing.to_vec();
            e.push(0);
            loans_in(s, payload, &e, out);
        }
    }
}

fn has_action(prog: &[Action], f: &dyn Fn(&Action) -> bool) -> bool {
    prog.iter().any(|a| {
        f(a) || match a {
            Action::Loan { program, .. } | Action::LoanWithCoins { program, .. } => has_action(program, f),
            Action::RouterLoan { payload, .. } => has_action(payload, f),
            _ => false,
        }
    })
}

impl Scenario for VaultScen {
    const NAME: &'static str = "VAULT";
    type Cfg = Cfg;
    type Step = Step;

    fn gen_cfg(rng: &mut Rng, prop: &str, tier: Tier, idx: u64) -> Cfg {
        let depth = 2;
        let per_run = 24u64;
        let space = enum_space(depth);
        // C06: the first 2 * ceil(space / per_run) runs enumerate the program space completely
        // (native vault, then cw20 vault); later run indices explore at random
        let enum_mode = prop == "C06" && idx < enum_runs();
        let kind = if enum_mode {
            if (idx / ((space + per_run - 1) / per_run)) % 2 == 0 { Kind::Native } else { Kind::Cw20 }
        } else if rng.chance(1, 2) { Kind::Native } else { Kind::Cw20 };
        let user_funds = match rng.below(4) {
            0 => 50_000_000,
            1 => 10u128.pow(14),
            2 => 10u128.pow(27),
            _ => 1u128 << 120,
        };
        let mut weights = [16, 12, 30, 6, 3, 3, 6];
        for w in weights.iter_mut().skip(3) {
            if rng.chance(1, 4) {
                *w = 0;
            }
        }
        if prop == "C07" {
            weights[3] = 14;
        }
        let max_steps = if enum_mode {
            per_run as usize + 4
        } else {
            let cap = if tier == Tier::Thorough { 200 } else { 60 };
            let mut n = 6;
            while n < cap && !rng.chance(1, 22) {
                n += 1;
            }
            n
        };
        let runs_per_kind = (space + per_run - 1) / per_run;
        Cfg {
            kind,
            fees: gen_fees(rng),
            user_funds,
            n_users: rng.range(3, 5) as usize,
            max_steps,
            faults: !enum_mode && rng.chance(1, 3),
            weights,
            enum_from: if enum_mode { Some((idx % runs_per_kind) * per_run) } else { None },
            enum_count: per_run,
            enum_depth: depth,
            operator_borrower: !enum_mode && rng.chance(1, 8),
        }
    }

    fn max_steps(cfg: &Cfg) -> usize {
        cfg.max_steps
    }

    fn build(cfg: &Cfg, _ctx: &mut Ctx) -> Self {
        let n = cfg.n_users;
        let mut bals: Vec<(&str, Vec<Coin>)> = vec![];
        for u in USERS.iter().take(n) {
            let mut cs = vec![coin(10u128.pow(12), "uyyy"), coin(1_000_000, "ujunk")];
            if cfg.kind == Kind::Native {
                cs.push(coin(cfg.user_funds, "uxxx"));
            }
            bals.push((u, cs));
        }
        let mut oc = vec![coin(10u128.pow(13), "uyyy"), coin(10u128.pow(30), "ujunk")];
        oc.sort_by(|a, b| a.denom.cmp(&b.denom));
        if cfg.kind == Kind::Native {
            oc.push(coin(cfg.user_funds, "uxxx"));
        }
        bals.push((OWNER, oc));
        let mut app = new_app(&bals);
        let token_code = app.store_code(code::token());
        let vault_code = app.store_code(code::vault());
        let vf_code = app.store_code(code::vault_factory());
        let vr_code = app.store_code(code::vault_router());
        let b_code = app.store_code(vh::borrower_code());
        let asset = match cfg.kind {
            Kind::Native => native("uxxx"),
            Kind::Cw20 => {
                let mut b: Vec<(&str, u128)> = USERS.iter().take(n).map(|u| (*u, cfg.user_funds)).collect();
                b.push((OWNER, cfg.user_funds));
                token(&new_cw20(&mut app, token_code, "TKX", 6, OWNER, &b))
            }
        };
        let asset1 = native("uyyy");
        let factory = must_instantiate(&mut app, vf_code, OWNER, &vault_factory::InstantiateMsg { owner: OWNER.into(), vault_id: vault_code, token_id: token_code, fee_collector_addr: COLLECTOR.into() }, "vault_factory", None);
        must_exec(&mut app, OWNER, &factory, &vault_factory::ExecuteMsg::CreateVault { asset_info: asset.clone(), fees: vault_fee(&cfg.fees), token_factory_lp: false }, vec![]);
        must_exec(&mut app, OWNER, &factory, &vault_factory::ExecuteMsg::CreateVault { asset_info: asset1.clone(), fees: vault_fee(&["0.001".into(), "0.002".into(), "0.0005".into()]), token_factory_lp: false }, vec![]);
        let v0: Option<String> = query(&app, &factory, &vault_factory::QueryMsg::Vault { asset_info: asset.clone() }).expect("harness: vault0");
        let v1: Option<String> = query(&app, &factory, &vault_factory::QueryMsg::Vault { asset_info: asset1.clone() }).expect("harness: vault1");
        let (vault_a, vault1) = (v0.expect("vault0"), v1.expect("vault1"));
        let c0: vault::Config = query(&app, &vault_a, &vault::QueryMsg::Config {}).expect("cfg0");
        let c1: vault::Config = query(&app, &vault1, &vault::QueryMsg::Config {}).expect("cfg1");
        let router = must_instantiate(&mut app, vr_code, OWNER, &vault_router::InstantiateMsg { owner: OWNER.into(), vault_factory_addr: factory.clone() }, "vault_router", None);
        let borrower = must_instantiate(&mut app, b_code, OWNER, &cosmwasm_std::Empty {}, "borrower", None);
        let fee18 = [dec_atomics(&cfg.fees[0]), dec_atomics(&cfg.fees[1]), dec_atomics(&cfg.fees[2])];
        let mut s = VaultScen {
            cfg: cfg.clone(),
            app,
            asset,
            asset1,
            factory,
            router,
            vault: vault_a,
            vault1,
            lp: asset_id(&c0.lp_asset),
            lp1: asset_id(&c1.lp_asset),
            borrower,
            fee18,
            blocks: 0,
            model: Model::default(),
            collector_now: COLLECTOR.to_string(),
            junk_next: std::cell::Cell::new(0),
        };
        // vault1 liquidity + borrower purse (both assets)
        let m = s.deposit_msgs(&s.vault1.clone(), &s.asset1.clone(), 10u128.pow(10), 10u128.pow(10));
        let r = tx(&mut s.app, OWNER, m, Fault::None);
        assert!(r.outcome.is_ok(), "harness: vault1 deposit {}", r.outcome.err_text());
        let purse = cfg.user_funds / 4;
        let mut msgs = vec![bank_send(&s.borrower, 10u128.pow(12), "uyyy"), bank_send(&s.borrower, 10u128.pow(29), "ujunk")];
        msgs.push(match &s.asset {
            AssetInfo::NativeToken { denom } => bank_send(&s.borrower, purse, denom),
            AssetInfo::Token { contract_addr } => wasm_exec(contract_addr, &cw20::Cw20ExecuteMsg::Transfer { recipient: s.borrower.clone(), amount: Uint128::new(purse) }, vec![]),
        });
        let r = tx(&mut s.app, OWNER, msgs, Fault::None);
        assert!(r.outcome.is_ok(), "harness: fund borrower {}", r.outcome.err_text());
        if cfg.operator_borrower {
            let m = wasm_exec(&s.factory, &vault_factory::ExecuteMsg::UpdateConfig { owner: Some(s.borrower.clone()), fee_collector_addr: None, vault_id: None, token_id: None }, vec![]);
            let r = tx(&mut s.app, OWNER, vec![m], Fault::None);
            assert!(r.outcome.is_ok(), "harness: hand the factory to the borrower {}", r.outcome.err_text());
        }
        s
    }

    fn gen_step(&mut self, rng: &mut Rng, ctx: &mut Ctx) -> Option<Step> {
        let actor = rng.idx(self.cfg.n_users);
        let who = self.user(actor);
        let adv = if rng.chance(1, 2) { 0 } else { rng.range(1, 3) as u32 };
        let o = self.observe().ok()?;
        let ubal = o.users[actor];
        let ulp = o.users_lp[actor];
        let _ = who;
        // seeding: first deposit by a user, then the borrower gets some shares
        if o.share == 0 {
            let amount = match rng.below(6) {
                0 => 1000,
                1 => 1001,
                2 => 2000,
                _ => rng.edge_amount(ubal / 3).max(1001),
            };
            return Some(Step { actor, op: Op::Deposit { amount, sent: amount }, adv, fault: Fault::None });
        }
        if !self.model.seeded {
            self.model.seeded = true;
            // borrower deposits so that it holds shares (top-level Run, no loan)
            let amt = (o.borrower / 10).max(20_000).min(o.borrower);
            return Some(Step {
                actor,
                op: Op::Loan { router: false, amount: 0, program: vec![Action::Deposit { vault: self.vault.clone(), asset: self.asset.clone(), amount: Uint128::new(amt) }] },
                adv,
                fault: Fault::None,
            });
        }
        if !self.model.queue.is_empty() {
            return Some(self.model.queue.remove(0));
        }
        // everybody leaves: the borrower and every user redeem all their shares, so that only the
        // locked minimum liquidity is left (at whatever share price fees and donations produced),
        // and then somebody deposits again
        if self.cfg.enum_from.is_none() && o.share > 1000 && rng.chance(1, 30) {
            ctx.probe("exit_all_then_deposit_scripted");
            let mut q = vec![];
            if o.borrower_lp > 0 {
                q.push(Step {
                    actor,
                    op: Op::Loan { router: false, amount: 0, program: vec![Action::WithdrawShares { vault: self.vault.clone(), lp: self.lp.clone(), amount: Uint128::new(o.borrower_lp) }] },
                    adv: 0,
                    fault: Fault::None,
                });
            }
            for (u, l) in o.users_lp.iter().enumerate() {
                if *l > 0 {
                    q.push(Step { actor: u, op: Op::Withdraw { lp: *l }, adv: 0, fault: Fault::None });
                }
            }
            let amount = match rng.below(4) { 0 => 1, 1 => 1000, _ => rng.edge_amount(ubal / 2).max(1) };
            q.push(Step { actor, op: Op::Deposit { amount, sent: amount }, adv: 0, fault: Fault::None });
            self.model.queue = q;
            return Some(self.model.queue.remove(0));
        }
        // enumeration mode
        if let Some(from) = self.cfg.enum_from {
            let k = self.model.enum_next;
            if k >= self.cfg.enum_count {
                return None;
            }
            self.model.enum_next += 1;
            let i = from + k;
            let depth = self.cfg.enum_depth;
            let n_direct2 = n_progs(depth, 2);
            let n_direct3 = n_atoms(1).pow(3);
            let amount = (o.bal - o.pending.min(o.bal)) / 3;
            let amount = amount.max(1);
            if i >= enum_space(depth) {
                return None;
            }
            ctx.probe("enumerated_program");
            let (router, sym) = if i < n_direct2 {
                (false, prog_at(depth, 2, i))
            } else if i < n_direct2 + n_direct3 {
                // exactly length-3 programs of depth 1
                let mut j = i - n_direct2;
                let mut p = vec![];
                for _ in 0..3 {
                    p.push(BASE[(j % 9) as usize].clone());
                    j /= 9;
                }
                (false, p)
            } else {
                (true, prog_at(1, 2, i - n_direct2 - n_direct3))
            };
            let program = if router {
                // payload actions pay into the router instead of the vault
                self.concretise(&sym, 0, amount)
                    .into_iter()
                    .map(|a| match a {
                        Action::Pay { asset, amount: am, .. } => {
                            // the router already holds the principal; the payload brings the fees (+-)
                            Action::Pay { to: self.router.clone(), asset, amount: Uint128::new(am.u128().saturating_sub(amount)) }
                        }
                        other => other,
                    })
                    .collect()
            } else {
                vec![Action::Loan { vault: self.vault.clone(), amount: Uint128::new(amount), program: self.concretise(&sym, 0, amount) }]
            };
            return Some(Step { actor, op: Op::Loan { router, amount, program }, adv: 0, fault: Fault::None });
        }
        let mut fault = Fault::None;
        if self.cfg.faults && rng.chance(1, 8) {
            fault = match rng.below(6) { 0..=2 => Fault::SubCall(rng.range(2, 9) as u32), 3 | 4 => Fault::Bank(rng.range(1, 3) as u32), _ => Fault::Query(rng.range(1, 4) as u32) };
        }
        let kind = rng.weighted(&self.cfg.weights);
        let op = match kind {
            0 if self.cfg.kind == Kind::Native && rng.chance(1, 10) => {
                // a coin of a foreign denom rides along (it sorts before the vault's denom); the declared
                // amount equals the foreign amount, the vault asset is missing, short or complete
                let amount = rng.range128(1, 1_000);
                let sent = *rng.pick(&[0u128, 1, amount]);
                Op::DepositWithJunk { amount, sent, junk: amount }
            }
            0 => {
                let amount = rng.edge_amount(ubal / 2).max(1);
                let sent = match rng.below(10) { 0 => amount.saturating_sub(1), 1 => amount.saturating_add(1), 2 => 0, _ => amount };
                Op::Deposit { amount, sent }
            }
            1 if rng.chance(1, 8) => Op::WithdrawDirect { junk: rng.chance(1, 2), amount: *rng.pick(&[1u128, 1000, 1001, 999_999, 2, 998, 1_000_000]) },
            1 => Op::Withdraw { lp: if ulp == 0 { rng.range128(0, 5) } else { match rng.below(4) { 0 => ulp, 1 => 1, _ => rng.edge_amount(ulp) } } },
            2 if rng.chance(1, 8) => {
                // a loan through the router with coins attached to the router's own FlashLoan message: they are
                // the initiator's and must come back with the proceeds; the vault is paid the quote only
                let amount = rng.edge_amount(o.bal.max(1)).max(1);
                let f = self.fee_of3(amount);
                let fees = f[0].saturating_add(f[1]).saturating_add(f[2]);
                let pay = fees.saturating_add(*rng.pick(&[0u128, 0, 1, 1000]));
                let attach = if self.cfg.kind == Kind::Native { (*rng.pick(&[1u128, 100, fees.max(1), amount / 2 + 1])).min(ubal) } else { 0 };
                let junk = if self.cfg.kind != Kind::Native || rng.chance(1, 4) { 7 } else { 0 };
                Op::RouterLoanCoins { amount, pay, attach, junk }
            }
            2 => {
                let avail = o.bal;
                let amount = match rng.below(8) { 0 => avail, 1 => avail.saturating_add(1), 2 => 1, _ => rng.edge_amount(avail.max(1)) }.max(1);
                let router = rng.chance(1, 3);
                // random symbolic program, depth <= 3
                let sym = random_prog(rng, 3, 3);
                let program = if router {
                    self.concretise(&sym, 0, amount).into_iter().map(|a| match a {
                        Action::Pay { asset, amount: am, .. } => Action::Pay { to: self.router.clone(), asset, amount: Uint128::new(am.u128().saturating_sub(amount)) },
                        other => other,
                    }).collect()
                } else if rng.chance(1, 8) {
                    // coins of a foreign denom ride on the FlashLoan message itself; half of the time the
                    // borrower then holds back as many units of the vault asset as it attached of the other
                    let x = rng.edge_amount(amount.max(1)).max(1);
                    let hold_back = rng.chance(1, 2);
                    let inner: Vec<Action> = self.concretise(&sym, 0, amount).into_iter().map(|a| match a {
                        Action::Pay { to, asset, amount: am } if hold_back && to == self.vault => Action::Pay { to, asset, amount: Uint128::new(am.u128().saturating_sub(x)) },
                        other => other,
                    }).collect();
                    ctx.probe("loan_with_foreign_coins_attached");
                    vec![Action::LoanWithCoins { vault: self.vault.clone(), amount: Uint128::new(amount), denom: "ujunk".into(), coins: Uint128::new(x), program: inner }]
                } else if self.cfg.operator_borrower && rng.chance(1, 3) {
                    // the operator-borrower switches loans off inside its own callback, deposits, switches
                    // them on again, and then does whatever the drawn program does
                    let toggle = |on: bool| Action::Exec {
                        contract: self.factory.clone(),
                        msg: cosmwasm_std::to_json_binary(&vault_factory::ExecuteMsg::UpdateVaultConfig {
                            vault_addr: self.vault.clone(),
                            params: vault::UpdateConfigParams { flash_loan_enabled: Some(on), deposit_enabled: None, withdraw_enabled: None, new_owner: None, new_vault_fees: None, new_fee_collector_addr: None },
                        })
                        .unwrap(),
                    };
                    let dep = rng.edge_amount((o.borrower / 4).max(1)).max(1);
                    let mut inner = vec![toggle(false), Action::Deposit { vault: self.vault.clone(), asset: self.asset.clone(), amount: Uint128::new(dep) }, toggle(true)];
                    inner.extend(self.concretise(&sym, 0, amount));
                    ctx.probe("operator_borrower_reconfigures_inside_loan");
                    vec![Action::Loan { vault: self.vault.clone(), amount: Uint128::new(amount), program: inner }]
                } else {
                    vec![Action::Loan { vault: self.vault.clone(), amount: Uint128::new(amount), program: self.concretise(&sym, 0, amount) }]
                };
                Op::Loan { router, amount, program }
            }
            3 => Op::Collect,
            4 if rng.chance(1, 4) => Op::SetCollector { second: rng.chance(1, 2) },
            4 if rng.chance(1, 3) => {
                // re-split the same total between the three fees
                let c = &self.cfg.fees;
                Op::SetFees { fees: if rng.chance(1, 2) { [c[1].clone(), c[2].clone(), c[0].clone()] } else { [c[2].clone(), c[0].clone(), c[1].clone()] } }
            }
            4 => Op::SetFees { fees: gen_fees(rng) },
            5 => Op::Donate { amount: rng.edge_amount(ubal / 4).max(1) },
            _ => Op::DepositWithdraw { amount: rng.edge_amount(ubal / 2).max(1) },
        };
        let fault = match op { Op::SetFees { .. } | Op::SetCollector { .. } | Op::Donate { .. } | Op::DepositWithdraw { .. } => Fault::None, _ => fault };
        Some(Step { actor, op, adv, fault })
    }

    fn apply(&mut self, step: &Step, ctx: &mut Ctx) {
        apply(self, step, ctx)
    }

    fn simplify(step: &Step) -> Vec<Step> {
        let mut out = vec![];
        if step.fault != Fault::None {
            out.push(Step { fault: Fault::None, ..step.clone() });
        }
        if step.adv != 0 {
            out.push(Step { adv: 0, ..step.clone() });
        }
        let shr = |x: u128| -> Vec<u128> { if x > 1 { vec![x / 2, x - 1] } else { vec![] } };
        match &step.op {
            Op::Deposit { amount, sent } if amount == sent => {
                for a in shr(*amount) { out.push(Step { op: Op::Deposit { amount: a, sent: a }, ..step.clone() }); }
            }
            Op::Withdraw { lp } => for a in shr(*lp) { out.push(Step { op: Op::Withdraw { lp: a }, ..step.clone() }); },
            Op::Donate { amount } => for a in shr(*amount) { out.push(Step { op: Op::Donate { amount: a }, ..step.clone() }); },
            Op::DepositWithdraw { amount } => for a in shr(*amount) { out.push(Step { op: Op::DepositWithdraw { amount: a }, ..step.clone() }); },
            Op::Loan { router, amount, program } => {
                // drop one action of the top-level loan's program
                if let [Action::Loan { vault, amount: am, program: inner }] = program.as_slice() {
                    for i in 0..inner.len() {
                        let mut p = inner.clone();
                        p.remove(i);
                        out.push(Step { op: Op::Loan { router: *router, amount: *amount, program: vec![Action::Loan { vault: vault.clone(), amount: *am, program: p }] }, ..step.clone() });
                    }
                }
            }
            _ => {}
        }
        out
    }

    fn sim_clock(&self) -> (u64, u64) {
        (self.blocks * 6_000_000_000, self.blocks)
    }
}

fn random_prog(rng: &mut Rng, depth: u32, maxlen: usize) -> Vec<Sym> {
    let len = rng.range(1, maxlen as u64) as usize;
    let mut out = vec![];
    for _ in 0..len {
        let pick = rng.below(if depth > 1 { 15 } else { 12 });
        out.push(match pick {
            0..=3 => Sym::RepayExact,
            4 => Sym::RepayMinus1,
            5 => Sym::RepayPlus,
            6 => Sym::Nothing,
            7 => Sym::Fail,
            8 => Sym::Deposit,
            9 => Sym::Withdraw,
            10 => Sym::Collect,
            11 => Sym::ExternalAfterTrade,
            _ => Sym::Nested(rng.chance(2, 3), random_prog(rng, depth - 1, 2)),
        });
    }
    out
}

fn count_fault(ctx: &mut Ctx, fault: Fault, fired: bool) {
    if fired {
        ctx.fault(match fault { Fault::SubCall(_) => "F1_subcall", Fault::Bank(_) => "F2_bank", _ => "F3_query" });
    }
}

fn price_not_lower(b: &Obs, a: &Obs) -> bool {
    // (B'-F')*S >= (B-F)*S'
    let back_b = b.bal.saturating_sub(b.pending);
    let back_a = a.bal.saturating_sub(a.pending);
    u512(back_a) * u512(b.share) >= u512(back_b) * u512(a.share)
}

fn global_invariants(s: &mut VaultScen, ctx: &mut Ctx, before: &Obs, after: &Obs, ok: bool, opname: &str, known_price: Option<&str>) {
    ctx.eval("C05");
    if after.pending > after.bal {
        ctx.fail("C05", "solvency", "pending_gt_balance", None, format!("{opname}: pending fees {} > vault balance {}", after.pending, after.bal));
    }
    if ok && before.share > 0 && after.share > 0 && !price_not_lower(before, after) {
        ctx.fail("C05", "share_price_monotone", opname, known_price,
            format!("{opname}: backing/share fell: (B {} - F {})/S {} -> (B {} - F {})/S {}", before.bal, before.pending, before.share, after.bal, after.pending, after.share));
    }
    if before.share > 0 && (after.lp_vault < 1000 || after.lp_vault < before.lp_vault.min(1000)) {
        ctx.fail("C05", "min_liquidity_locked", "vault_lp_balance", None, format!("{opname}: vault holds {} of its own LP", after.lp_vault));
    }
    if after.loan_counter != 0 || after.loan_counter1 != 0 {
        ctx.fail("C06", "loan_counter_zero", opname, None, format!("{opname}: loan counters {} / {}", after.loan_counter, after.loan_counter1));
    }
    // C07 vault ledger
    ctx.eval("C07");
    if after.pending > after.bal {
        ctx.fail("C07", "pending_fees_held", "pending_gt_balance", None, format!("{opname}: the vault owes {} of protocol fees but holds only {}", after.pending, after.bal));
    }
    let expect = s.model.charged.saturating_sub(s.model.received);
    if after.pending != expect {
        ctx.fail("C07", "vault_pending_ledger", "pending_ne_charged_minus_received", None,
            format!("{opname}: vault pending {} != charged {} - received {}", after.pending, s.model.charged, s.model.received));
    }
    if after.all_time != s.model.charged {
        ctx.fail("C07", "vault_all_time_collected", "ne_sum_of_charges", None, format!("{opname}: all_time {} != {}", after.all_time, s.model.charged));
    }
    if after.burned != s.model.burned {
        ctx.fail("C07", "vault_all_time_burned", "ne_sum_of_burns", None, format!("{opname}: burned {} != {}", after.burned, s.model.burned));
    }
    if !ok && (obs_key(before) != obs_key(after) || before.supply != after.supply || before.bal1 != after.bal1 || before.users != after.users) {
        ctx.fail("C06", "failed_tx_no_effect", opname, None, format!("{opname}: state changed by a failed transaction"));
    }
    if opname != "set_collector" && before.other_collector != after.other_collector {
        ctx.fail("C07", "nothing_else_moves", "unconfigured_collector_paid", None, format!("{opname}: the balance of a collector address the vault is not configured with changed {} -> {}", before.other_collector, after.other_collector));
    }
}

pub fn apply(s: &mut VaultScen, step: &Step, ctx: &mut Ctx) {
    s.advance(step.adv);
    let actor = step.actor % s.cfg.n_users;
    let who = s.user(actor);
    let Ok(before) = s.observe() else {
        ctx.fail("C05", "solvency", "queries_fail", None, "vault queries fail".into());
        return;
    };
    match &step.op {
        Op::Deposit { amount, sent } => {
            do_deposit(s, ctx, actor, *amount, *sent, step.fault, "deposit");
        }
        Op::DepositWithdraw { amount } => {
            let b0 = before.users[actor];
            let lp0 = before.users_lp[actor];
            if do_deposit(s, ctx, actor, *amount, *amount, Fault::None, "depwd_deposit") && !ctx.stopped() {
                let lp1 = balance(&s.app, who, &token(&s.lp));
                let minted = lp1.saturating_sub(lp0);
                if minted > 0 && do_withdraw(s, ctx, actor, minted, Fault::None, "depwd_withdraw") {
                    let b2 = balance(&s.app, who, &s.asset);
                    ctx.eval("C05");
                    ctx.probe("deposit_withdraw_completed");
                    if b2 > b0 {
                        ctx.fail("C05", "deposit_then_withdraw", "returns_more_than_deposited", None, format!("deposit {amount} then withdraw {minted} LP: balance {b0} -> {b2}"));
                    }
                }
            }
        }
        Op::Withdraw { lp } => {
            do_withdraw(s, ctx, actor, *lp, step.fault, "withdraw");
        }
        Op::DepositWithJunk { amount, sent, junk } => {
            s.junk_next.set(*junk);
            do_deposit(s, ctx, actor, *amount, *sent, Fault::None, "deposit_with_foreign_coin");
            s.junk_next.set(0);
        }
        Op::WithdrawDirect { junk, amount } => {
            // an unrelated coin, the other vault's asset, or (native vault, even amounts) the vault's OWN asset
            let denom = if s.cfg.kind == Kind::Native && *amount % 2 == 0 { "uxxx" } else if *junk { "ujunk" } else { "uyyy" };
            let r = tx(&mut s.app, who, vec![wasm_exec(&s.vault, &vault::ExecuteMsg::Withdraw {}, vec![coin(*amount, denom)])], Fault::None);
            ctx.op("withdraw_direct_with_coin", r.outcome.kind());
            let Ok(after) = s.observe() else { ctx.fail("C05", "solvency", "queries_fail", None, "after direct withdraw".into()); return; };
            ctx.trace(&format!("withdraw_direct:{}:{}", r.outcome.kind(), after.bal));
            if r.outcome.is_ok() {
                ctx.eval("C05");
                ctx.fail("C05", "withdraw_needs_lp", "native_coin_accepted_as_lp", None, format!("vault Withdraw {{}} with {amount}{denom} attached succeeded although the vault's LP token is a cw20; balance {} -> {}", before.bal, after.bal));
            }
            global_invariants(s, ctx, &before, &after, r.outcome.is_ok(), "withdraw_direct_with_coin", None);
        }
        Op::Collect => {
            let msg = wasm_exec(&s.vault, &vault::ExecuteMsg::CollectProtocolFees {}, vec![]);
            let r = tx(&mut s.app, who, vec![msg], step.fault);
            ctx.op("collect", r.outcome.kind());
            count_fault(ctx, step.fault, r.fault_fired);
            let Ok(after) = s.observe() else { ctx.fail("C05", "solvency", "queries_fail", None, "after collect".into()); return; };
            ctx.trace(&format!("collect:{}:{}", r.outcome.kind(), after.pending));
            if r.outcome.is_ok() {
                ctx.eval("C07");
                let got = after.collector.saturating_sub(before.collector);
                let left = before.bal.saturating_sub(after.bal);
                s.model.received = s.model.received.saturating_add(got);
                if before.pending == 0 { ctx.probe("collect_pending_zero"); } else { ctx.probe("collect_pending_nonzero"); }
                if r.fault_fired {
                    ctx.fail("C07", "fault_swallowed", "vault_collect", None, "vault collection succeeded although a transfer failed".into());
                }
                if got != before.pending || left != before.pending || after.pending != 0 {
                    ctx.fail("C07", "vault_collect_transfers_pending", "collector_got_ne_pending", None,
                        format!("vault collect: pending {}, collector +{got}, vault -{left}, pending after {}", before.pending, after.pending));
                }
                if after.share != before.share || after.supply != before.supply || after.users != before.users || after.borrower != before.borrower {
                    ctx.fail("C07", "nothing_else_moves", "vault_collect", None, "vault collect moved something else".into());
                }
                ctx.state_of(&obs_key(&after));
            }
            global_invariants(s, ctx, &before, &after, r.outcome.is_ok(), "collect", None);
        }
        Op::SetFees { fees } => {
            let msg = wasm_exec(&s.factory, &vault_factory::ExecuteMsg::UpdateVaultConfig {
                vault_addr: s.vault.clone(),
                params: vault::UpdateConfigParams { flash_loan_enabled: None, deposit_enabled: None, withdraw_enabled: None, new_owner: None, new_vault_fees: Some(vault_fee(fees)), new_fee_collector_addr: None },
            }, vec![]);
            let msg = if s.cfg.operator_borrower {
                match &msg {
                    CosmosMsg::Wasm(cosmwasm_std::WasmMsg::Execute { contract_addr, msg: inner, .. }) => wasm_exec(&s.borrower, &vh::ExecuteMsg::Run { program: vec![Action::Exec { contract: contract_addr.clone(), msg: inner.clone() }] }, vec![]),
                    _ => msg,
                }
            } else {
                msg
            };
            let r = tx(&mut s.app, OWNER, vec![msg], Fault::None);
            ctx.op("set_fees", r.outcome.kind());
            if r.outcome.is_ok() {
                s.cfg.fees = fees.clone();
                s.fee18 = [dec_atomics(&fees[0]), dec_atomics(&fees[1]), dec_atomics(&fees[2])];
            }
            let Ok(after) = s.observe() else { return; };
            ctx.trace(&format!("set_fees:{}", r.outcome.kind()));
            global_invariants(s, ctx, &before, &after, r.outcome.is_ok(), "set_fees", None);
        }
        Op::SetCollector { second } => {
            let target = if *second { COLLECTOR2 } else { COLLECTOR };
            let msg = wasm_exec(&s.factory, &vault_factory::ExecuteMsg::UpdateVaultConfig {
                vault_addr: s.vault.clone(),
                params: vault::UpdateConfigParams { flash_loan_enabled: None, deposit_enabled: None, withdraw_enabled: None, new_owner: None, new_vault_fees: None, new_fee_collector_addr: Some(target.to_string()) },
            }, vec![]);
            let msg = if s.cfg.operator_borrower {
                match &msg {
                    CosmosMsg::Wasm(cosmwasm_std::WasmMsg::Execute { contract_addr, msg: inner, .. }) => wasm_exec(&s.borrower, &vh::ExecuteMsg::Run { program: vec![Action::Exec { contract: contract_addr.clone(), msg: inner.clone() }] }, vec![]),
                    _ => msg,
                }
            } else {
                msg
            };
            let r = tx(&mut s.app, OWNER, vec![msg], Fault::None);
            ctx.op("set_collector", r.outcome.kind());
            ctx.trace(&format!("set_collector:{target}:{}", r.outcome.kind()));
            let prev = s.collector_now.clone();
            if r.outcome.is_ok() {
                s.collector_now = target.to_string();
                ctx.probe("collector_repointed");
            }
            let Ok(after) = s.observe() else { return; };
            let (c_after, o_after) = if prev == s.collector_now { (after.collector, after.other_collector) } else { (after.other_collector, after.collector) };
            ctx.eval("C07");
            if c_after != before.collector || o_after != before.other_collector || after.bal != before.bal || after.pending != before.pending {
                ctx.fail("C07", "nothing_else_moves", "set_collector_moved_funds", None, format!("re-pointing the fee collector changed balances or ledgers: pending {} -> {}, vault {} -> {}", before.pending, after.pending, before.bal, after.bal));
            }
            if !r.outcome.is_ok() {
                ctx.fail("C07", "collector_update", "owner_update_refused", None, format!("the owner's fee collector update failed: {}", r.outcome.err_text()));
            }
            global_invariants(s, ctx, &before, &after, r.outcome.is_ok(), "set_collector", None);
        }
        Op::Donate { amount } => {
            let msg = match &s.asset {
                AssetInfo::NativeToken { denom } => bank_send(&s.vault, *amount, denom),
                AssetInfo::Token { contract_addr } => wasm_exec(contract_addr, &cw20::Cw20ExecuteMsg::Transfer { recipient: s.vault.clone(), amount: Uint128::new(*amount) }, vec![]),
            };
            let r = tx(&mut s.app, who, vec![msg], Fault::None);
            ctx.op("donate", r.outcome.kind());
            let Ok(after) = s.observe() else { return; };
            ctx.trace(&format!("donate:{}:{}", r.outcome.kind(), after.bal));
            global_invariants(s, ctx, &before, &after, r.outcome.is_ok(), "donate", None);
        }
        Op::Loan { router, amount, program } => do_loan(s, ctx, actor, *router, *amount, program, step.fault, &before, &[]),
        Op::RouterLoanCoins { amount, pay, attach, junk } => {
            ctx.probe("router_loan_with_coins_attached");
            let program = vec![Action::Pay { to: s.router.clone(), asset: s.asset.clone(), amount: Uint128::new(*pay) }];
            let mut funds = vec![];
            if *junk > 0 { funds.push(cosmwasm_std::coin(*junk, "ujunk")); }
            if *attach > 0 { if let AssetInfo::NativeToken { denom } = &s.asset { funds.push(cosmwasm_std::coin(*attach, denom)); } }
            funds.sort_by(|a, b| a.denom.cmp(&b.denom));
            do_loan(s, ctx, actor, true, *amount, &program, step.fault, &before, &funds)
        }
    }
}

fn do_deposit(s: &mut VaultScen, ctx: &mut Ctx, actor: usize, amount: u128, sent: u128, fault: Fault, opname: &str) -> bool {
    let who = s.user(actor);
    let Ok(before) = s.observe() else { return false; };
    let msgs = s.deposit_msgs(&s.vault.clone(), &s.asset.clone(), amount, sent);
    let r = tx(&mut s.app, who, msgs, fault);
    ctx.op(opname, r.outcome.kind());
    count_fault(ctx, fault, r.fault_fired);
    let Ok(after) = s.observe() else { ctx.fail("C05", "solvency", "queries_fail", None, format!("after {opname}")); return false; };
    ctx.trace(&format!("{opname}:{}:{}:{}", r.outcome.kind(), after.bal, after.share));
    let ok = r.outcome.is_ok();
    if ok {
        ctx.eval("C05");
        if r.fault_fired {
            ctx.fail("C05", "fault_swallowed", opname, None, "deposit succeeded although a sub-call failed".into());
        }
        if sent != amount {
            ctx.fail("C05", "deposit_funds_match", "mismatch_accepted", None, format!("deposit of {amount} accepted with {sent} sent"));
        }
        let minted_total = after.share.saturating_sub(before.share);
        let minted_user = after.users_lp[actor].saturating_sub(before.users_lp[actor]);
        if after.bal != before.bal.saturating_add(amount) || before.users[actor].saturating_sub(after.users[actor]) != amount {
            ctx.fail("C05", "deposit_funds_received", opname, None, format!("deposit {amount}: vault {} -> {}, user {} -> {}", before.bal, after.bal, before.users[actor], after.users[actor]));
        }
        if before.share == 0 {
            if after.lp_vault < 1000 {
                ctx.fail("C05", "min_liquidity_locked", "first_deposit_lock", None, format!("first deposit {amount}: vault holds only {} LP", after.lp_vault));
            }
            if minted_total > amount {
                ctx.fail("C05", "deposit_share", "first_deposit_over_mint", None, format!("first deposit {amount} minted {minted_total}"));
            }
            ctx.probe("first_deposit_done");
        } else {
            let backing = before.bal.saturating_sub(before.pending);
            let cap = muldiv(amount, before.share, backing.max(1));
            if u256(minted_total) > cap || minted_user != minted_total {
                ctx.fail("C05", "deposit_share", "over_mint", None, format!("deposit {amount} with backing {backing} supply {} minted {minted_total} (user +{minted_user}) > pro-rata {cap}", before.share));
            }
            // C07: the ledger that counts as "not the depositors'" on the deposit path is the PENDING
            // one: a mint that differs from the documented floor(amount * S / (balance - pending)) and
            // equals the same formula with the all-time total, or with nothing, deducted instead shows
            // that deposits are priced with the wrong ledger
            if before.pending > 0 || before.all_time > 0 {
                ctx.eval("C07");
                ctx.probe("vault_deposit_with_fee_history");
                if u256(minted_total) != cap {
                    for (what, ded) in [("the all-time total", before.all_time), ("nothing", 0u128)] {
                        if ded == before.pending {
                            continue;
                        }
                        let alt = muldiv(amount, before.share, before.bal.saturating_sub(ded).max(1));
                        if before.bal > ded && u256(minted_total) == alt {
                            ctx.fail("C07", "vault_deposit_priced_net_of_pending_fees", "wrong_ledger_deducted", None,
                                format!("deposit {amount}: balance {} pending {} all-time {} supply {}: minted {minted_total}; deducting the pending fees gives {cap}, deducting {what} gives exactly {alt}", before.bal, before.pending, before.all_time, before.share));
                            break;
                        }
                    }
                }
            }
        }
        ctx.state_of(&obs_key(&after));
    }
    global_invariants(s, ctx, &before, &after, ok, opname, None);
    ok
}

fn do_withdraw(s: &mut VaultScen, ctx: &mut Ctx, actor: usize, lp: u128, fault: Fault, opname: &str) -> bool {
    let who = s.user(actor);
    let Ok(before) = s.observe() else { return false; };
    let quote: Result<Uint128, String> = query(&s.app, &s.vault, &vault::QueryMsg::Share { amount: Uint128::new(lp) });
    let msg = s.withdraw_msg(lp);
    let r = tx(&mut s.app, who, vec![msg], fault);
    ctx.op(opname, r.outcome.kind());
    count_fault(ctx, fault, r.fault_fired);
    let Ok(after) = s.observe() else { ctx.fail("C05", "solvency", "queries_fail", None, format!("after {opname}")); return false; };
    ctx.trace(&format!("{opname}:{}:{}:{}", r.outcome.kind(), after.bal, after.share));
    let ok = r.outcome.is_ok();
    if ok {
        ctx.eval("C05");
        if r.fault_fired {
            ctx.fail("C05", "fault_swallowed", opname, None, "withdrawal succeeded although a sub-call failed".into());
        }
        let paid = after.users[actor].saturating_sub(before.users[actor]);
        let backing = before.bal.saturating_sub(before.pending);
        let cap = muldiv(lp, backing, before.share.max(1));
        if u256(paid) > cap {
            ctx.fail("C05", "withdraw_pro_rata", "over_pay", None, format!("withdraw {lp} of {} with backing {backing}: paid {paid} > {cap}", before.share));
        }
        if before.bal.saturating_sub(after.bal) != paid || before.share.saturating_sub(after.share) != lp || before.users_lp[actor].saturating_sub(after.users_lp[actor]) != lp {
            ctx.fail("C05", "withdraw_accounting", opname, None, format!("withdraw {lp}: vault -{}, user +{paid}, supply {} -> {}", before.bal.saturating_sub(after.bal), before.share, after.share));
        }
        for u in 0..before.users.len() {
            if u != actor && (before.users[u] != after.users[u] || before.users_lp[u] != after.users_lp[u]) {
                ctx.fail("C05", "third_party_untouched", opname, None, format!("user {u} changed during another user's withdrawal"));
            }
        }
        // C14: Share{n} == payout
        ctx.eval("C14");
        match &quote {
            Ok(q) if q.u128() == paid => {}
            Ok(q) => ctx.fail("C14", "vault_share_eq_withdraw", "payout", None, format!("Share({lp}) = {q} but withdrawal paid {paid}")),
            Err(e) => ctx.fail("C14", "vault_share_eq_withdraw", "query_failed", None, format!("Share({lp}) failed ({e}) but withdrawal paid {paid}")),
        }
        ctx.state_of(&obs_key(&after));
    }
    global_invariants(s, ctx, &before, &after, ok, opname, None);
    ok
}

#[allow(clippy::too_many_arguments)]
#[allow(clippy::too_many_arguments)]
fn do_loan(s: &mut VaultScen, ctx: &mut Ctx, actor: usize, router: bool, amount: u128, program: &[Action], fault: Fault, before: &Obs, router_funds: &[cosmwasm_std::Coin]) {
    let who = s.user(actor);
    // quote
    let quote: Result<vault::PaybackAmountResponse, String> = query(&s.app, &s.vault, &vault::QueryMsg::GetPaybackAmount { amount: Uint128::new(amount) });
    let f3 = s.fee_of3(amount);
    if let Ok(q) = &quote {
        ctx.eval("C06");
        if [q.protocol_fee.u128(), q.flash_loan_fee.u128(), q.burn_fee.u128()] != f3
            || u256(q.payback_amount.u128()) != u256(amount) + u256(f3[0]) + u256(f3[1]) + u256(f3[2])
        {
            ctx.fail("C06", "fee_exact", "payback_quote", None, format!("GetPaybackAmount({amount}) = {:?}, expected fees {:?}", q, f3));
        }
    }
    let initiator_before = balance(&s.app, who, &s.asset);
    let msg = if router {
        let msgs: Vec<CosmosMsg> = program.iter().map(|p| wasm_exec(&s.borrower, &vh::ExecuteMsg::Run { program: vec![p.clone()] }, vec![])).collect();
        wasm_exec(&s.router, &vault_router::ExecuteMsg::FlashLoan { assets: vec![Asset { info: s.asset.clone(), amount: Uint128::new(amount) }], msgs }, router_funds.to_vec())
    } else {
        wasm_exec(&s.borrower, &vh::ExecuteMsg::Run { program: program.to_vec() }, vec![])
    };
    let r = tx(&mut s.app, who, vec![msg], fault);
    let opname = if router { "loan_router" } else { "loan_direct" };
    ctx.op(opname, r.outcome.kind());
    count_fault(ctx, fault, r.fault_fired);
    let Ok(after) = s.observe() else { ctx.fail("C05", "solvency", "queries_fail", None, "after loan".into()); return; };
    ctx.trace(&format!("{opname}:{}:{amount}:{}:{}", r.outcome.kind(), after.bal, after.pending));
    let ok = r.outcome.is_ok();

    // which loans does the program contain?
    let mut loans: Vec<(usize, u128, bool)> = vec![];
    if router {
        loans.push((0, amount, false));
        loans_in(s, program, &[0], &mut loans);
    } else {
        loans_in(s, program, &[], &mut loans);
    }
    let is_loan = !loans.is_empty();
    let same_vault_nesting = loans.iter().any(|l| l.0 == 0 && l.2);
    if same_vault_nesting { ctx.probe("nested_loan_same_vault"); }
    if loans.len() >= 2 { ctx.probe("nested_loan_depth_ge2"); }
    let has_withdraw = has_action(program, &|a| matches!(a, Action::WithdrawShares { .. }));
    let has_collect = has_action(program, &|a| matches!(a, Action::CollectFees { .. }));
    let has_deposit = has_action(program, &|a| matches!(a, Action::Deposit { .. }));

    // the two canonical programs
    let exact_only = !router && matches!(program, [Action::Loan { program: p, .. }] if matches!(p.as_slice(), [Action::Pay { amount: a, to, .. }] if quote.as_ref().map(|q| q.payback_amount == *a).unwrap_or(false) && *to == s.vault));
    let minus1_only = !router && matches!(program, [Action::Loan { program: p, .. }] if matches!(p.as_slice(), [Action::Pay { amount: a, to, .. }] if quote.as_ref().map(|q| q.payback_amount.u128() == a.u128() + 1).unwrap_or(false) && *to == s.vault));

    let mut known_price: Option<&str> = None;
    if ok && is_loan {
        ctx.eval("C06");
        if r.fault_fired {
            ctx.fail("C06", "fault_swallowed", opname, None, "loan transaction succeeded although a sub-call failed".into());
        }
        // fees of every completed loan on vault 0
        let mut p_sum = 0u128; let mut f_sum = 0u128; let mut b_sum = 0u128;
        let mut inner_p = 0u128;
        let mut first = true;
        let mut top_pf = 0u128;
        for (v, a, nested_same) in &loans {
            if *v == 0 {
                let f = s.fee_of3(*a);
                p_sum = p_sum.saturating_add(f[0]); f_sum = f_sum.saturating_add(f[1]); b_sum = b_sum.saturating_add(f[2]);
                if first { top_pf = f[0].saturating_add(f[1]); first = false; } else if *nested_same { inner_p = inner_p.saturating_add(f[0]); }
            }
        }
        let mut b1_sum = 0u128;
        for (v, a, _) in &loans { if *v == 1 { b1_sum = b1_sum.saturating_add(s.fee1_of3(*a)[2]); } }
        s.model.charged = s.model.charged.saturating_add(p_sum);
        s.model.burned = s.model.burned.saturating_add(b_sum);
        // collections inside the callback reach the collector
        let got = after.collector.saturating_sub(before.collector);
        s.model.received = s.model.received.saturating_add(got);
        // no shares minted while a loan is outstanding
        if after.share > before.share {
            ctx.fail("C06", "no_mint_during_loan", opname, None, format!("LP supply {} -> {} inside a loan transaction (deposit in program: {has_deposit})", before.share, after.share));
        }
        // burn really destroyed
        if before.supply.saturating_sub(after.supply) != b_sum || after.burned.saturating_sub(before.burned) != b_sum {
            ctx.fail("C06", "burn_destroyed", opname, None, format!("asset supply {} -> {}, burned counter {} -> {}, expected burn {b_sum}", before.supply, after.supply, before.burned, after.burned));
        }
        if before.supply1.saturating_sub(after.supply1) != b1_sum {
            ctx.fail("C06", "burn_destroyed", "vault1", None, format!("vault1 asset supply {} -> {}, expected burn {b1_sum}", before.supply1, after.supply1));
        }
        // balance rose by at least protocol + flash fees of every completed loan
        if !has_withdraw && !has_collect {
            let need = u256(before.bal) + u256(p_sum) + u256(f_sum);
            if u256(after.bal) < need {
                // D4: with a loan nested in a loan on the same vault each AfterTrade only enforces its own fees
                let d4 = same_vault_nesting && u256(after.bal) >= u256(before.bal) + u256(top_pf);
                ctx.fail("C06", "balance_rises_by_fees", opname, if d4 { Some("D4") } else { None },
                    format!("vault balance {} -> {} but completed loans owe protocol {p_sum} + flash {f_sum} (loans {:?})", before.bal, after.bal, loans));
            }
        }
        if same_vault_nesting {
            // bug-compatible bound for the share price: backing' >= backing + top-level flash fee - inner protocol fees
            let back_b = before.bal.saturating_sub(before.pending);
            let back_a = after.bal.saturating_sub(after.pending);
            // (also with share withdrawals inside the callback: adding the leaked inner protocol
            // fees back restores the monotonicity of the price)
            if (u512(back_a) + u512(inner_p)) * u512(before.share) >= u512(back_b) * u512(after.share) {
                known_price = Some("D4");
            }
        }
        if minus1_only {
            ctx.fail("C06", "one_unit_less_never_suffices", opname, None, format!("loan of {amount} repaid with payback-1 succeeded"));
        }
        // router keeps nothing and pays exactly the quote
        if router {
            if after.router_bal != 0 || before.router_bal != 0 {
                ctx.fail("C06", "router_keeps_nothing", opname, None, format!("router balance {} -> {}", before.router_bal, after.router_bal));
            }
            let only_pays = program.iter().all(|a| matches!(a, Action::Pay { to, .. } if *to == s.router));
            if only_pays && loans.len() == 1 {
                ctx.probe("router_loan_exact_accounting");
                let paid_in: u128 = program.iter().map(|a| if let Action::Pay { amount, .. } = a { amount.u128() } else { 0 }).sum();
                let fees_all = f3[0] + f3[1] + f3[2];
                let initiator_after = balance(&s.app, who, &s.asset);
                if after.bal != before.bal + f3[0] + f3[1] || initiator_after.saturating_sub(initiator_before) != paid_in.saturating_sub(fees_all) {
                    ctx.fail("C06", "router_pays_quote_and_forwards_rest", opname, None,
                        format!("router loan {amount}: payload paid {paid_in}, fees {fees_all}; vault +{}, initiator +{}", after.bal.saturating_sub(before.bal), initiator_after.saturating_sub(initiator_before)));
                }
            }
        }
        ctx.state_of(&obs_key(&after));
    } else if ok {
        // top-level Run without a loan (borrower deposit at seeding)
        let got = after.collector.saturating_sub(before.collector);
        s.model.received = s.model.received.saturating_add(got);
    } else {
        ctx.eval("C06");
        if exact_only && fault == Fault::None && amount >= 1 && amount <= before.bal {
            let fees_all = f3[0].saturating_add(f3[1]).saturating_add(f3[2]);
            if before.borrower >= fees_all {
                ctx.fail("C06", "exact_repayment_suffices", opname, None, format!("loan of {amount} repaid with exactly the quoted payback failed: {}", r.outcome.err_text()));
            }
        }
    }
    let has_ext = has_action(program, &|a| matches!(a, Action::CallAfterTrade { .. }));
    if has_ext {
        ctx.eval("C16");
        ctx.probe("external_after_trade_attempted");
        if ok {
            ctx.fail("C16", "vault_callback_reserved", "external_after_trade_accepted", None, format!("a transaction in which the borrower called the vault's AfterTrade callback itself succeeded ({opname}, loan {amount})"));
            ctx.fail("C06", "vault_callback_reserved", "external_after_trade_accepted", None, format!("a transaction in which the borrower called the vault's AfterTrade callback itself succeeded ({opname}, loan {amount})"));
        }
    }
    if exact_only && ok { ctx.probe("exact_repay_ok"); }
    if minus1_only && !ok { ctx.probe("minus1_refused"); }
    global_invariants(s, ctx, before, &after, ok, opname, known_price);
}
