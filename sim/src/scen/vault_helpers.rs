//! Harness-only contract used by the VAULT scenario: the adversarial flash-loan borrower.
//! It executes the *program* carried in the loan's callback message.

use cosmwasm_std::{
    coins, to_json_binary, Binary, CosmosMsg, Deps, DepsMut, Empty, Env, MessageInfo, Response,
    StdError, StdResult, Uint128, WasmMsg,
};
use cw_multi_test::{Contract, ContractWrapper};
use serde::{Deserialize, Serialize};

use white_whale_std::pool_network::asset::{Asset, AssetInfo};
use white_whale_std::vault_network::vault;
use white_whale_std::vault_network::vault_router;

/// One thing the borrower does inside the callback (or the router does as payload).
#[derive(Serialize, Deserialize, Clone, Debug, PartialEq, schemars::JsonSchema)]
#[serde(rename_all = "snake_case")]
pub enum Action {
    /// send `amount` of `asset` to `to` (repayment, over/under-payment, donation)
    Pay { to: String, asset: AssetInfo, amount: Uint128 },
    /// fail the callback
    Fail {},
    /// deposit into the vault (needs allowance for cw20)
    Deposit { vault: String, asset: AssetInfo, amount: Uint128 },
    /// withdraw vault shares held by the borrower
    WithdrawShares { vault: String, lp: String, amount: Uint128 },
    CollectFees { vault: String },
    /// hostile: call the vault's internal AfterTrade callback from outside
    CallAfterTrade { vault: String, old_balance: Uint128, loan_amount: Uint128 },
    /// take another loan; `program` is what the borrower does in that loan's callback
    Loan { vault: String, amount: Uint128, program: Vec<Action> },
    /// execute an arbitrary message with the borrower as sender (the borrower may be the operator
    /// of the vault factory in some runs)
    Exec { contract: String, msg: Binary },
    /// take a loan on a vault and attach coins of some (other) denom to the FlashLoan message itself
    LoanWithCoins { vault: String, amount: Uint128, denom: String, coins: Uint128, program: Vec<Action> },
    /// take a loan through the vault router; payload = messages the router runs
    RouterLoan { router: String, asset: AssetInfo, amount: Uint128, payload: Vec<Action> },
}

#[derive(Serialize, Deserialize, Clone, Debug, PartialEq, schemars::JsonSchema)]
#[serde(rename_all = "snake_case")]
pub enum ExecuteMsg {
    /// run the actions with the borrower as sender (entry point for users, for the vault's
    /// callback and for router payloads)
    Run { program: Vec<Action> },
}

fn pay_msg(to: &str, asset: &AssetInfo, amount: Uint128) -> StdResult<CosmosMsg> {
    Asset { info: asset.clone(), amount }.into_msg(cosmwasm_std::Addr::unchecked(to))
}

pub fn action_msgs(self_addr: &str, a: &Action) -> StdResult<Vec<CosmosMsg>> {
    Ok(match a {
        Action::Pay { to, asset, amount } => {
            if amount.is_zero() {
                vec![]
            } else {
                vec![pay_msg(to, asset, *amount)?]
            }
        }
        Action::Fail {} => return Err(StdError::generic_err("borrower: told to fail")),
        Action::Deposit { vault, asset, amount } => {
            let mut v = vec![];
            let funds = match asset {
                AssetInfo::NativeToken { denom } => coins(amount.u128(), denom),
                AssetInfo::Token { contract_addr } => {
                    v.push(
                        WasmMsg::Execute {
                            contract_addr: contract_addr.clone(),
                            msg: to_json_binary(&cw20::Cw20ExecuteMsg::IncreaseAllowance {
                                spender: vault.clone(),
                                amount: *amount,
                                expires: None,
                            })?,
                            funds: vec![],
                        }
                        .into(),
                    );
                    vec![]
                }
            };
            v.push(
                WasmMsg::Execute {
                    contract_addr: vault.clone(),
                    msg: to_json_binary(&vault::ExecuteMsg::Deposit { amount: *amount })?,
                    funds,
                }
                .into(),
            );
            v
        }
        Action::WithdrawShares { vault, lp, amount } => vec![WasmMsg::Execute {
            contract_addr: lp.clone(),
            msg: to_json_binary(&cw20::Cw20ExecuteMsg::Send {
                contract: vault.clone(),
                amount: *amount,
                msg: to_json_binary(&vault::Cw20HookMsg::Withdraw {})?,
            })?,
            funds: vec![],
        }
        .into()],
        Action::CollectFees { vault } => vec![WasmMsg::Execute {
            contract_addr: vault.clone(),
            msg: to_json_binary(&vault::ExecuteMsg::CollectProtocolFees {})?,
            funds: vec![],
        }
        .into()],
        Action::CallAfterTrade { vault, old_balance, loan_amount } => vec![WasmMsg::Execute {
            contract_addr: vault.clone(),
            msg: to_json_binary(&vault::ExecuteMsg::Callback(vault::CallbackMsg::AfterTrade { old_balance: *old_balance, loan_amount: *loan_amount }))?,
            funds: vec![],
        }
        .into()],
        Action::Loan { vault, amount, program } => vec![WasmMsg::Execute {
            contract_addr: vault.clone(),
            msg: to_json_binary(&vault::ExecuteMsg::FlashLoan {
                amount: *amount,
                msg: to_json_binary(&ExecuteMsg::Run { program: program.clone() })?,
            })?,
            funds: vec![],
        }
        .into()],
        Action::Exec { contract, msg } => vec![WasmMsg::Execute { contract_addr: contract.clone(), msg: msg.clone(), funds: vec![] }.into()],
        Action::LoanWithCoins { vault, amount, denom, coins: attached, program } => vec![WasmMsg::Execute {
            contract_addr: vault.clone(),
            msg: to_json_binary(&vault::ExecuteMsg::FlashLoan {
                amount: *amount,
                msg: to_json_binary(&ExecuteMsg::Run { program: program.clone() })?,
            })?,
            funds: coins(attached.u128(), denom),
        }
        .into()],
        Action::RouterLoan { router, asset, amount, payload } => {
            // the router runs the payload itself; each payload action becomes a call to the
            // borrower, which then acts with its own funds
            let msgs: Vec<CosmosMsg> = payload
                .iter()
                .map(|p| -> StdResult<CosmosMsg> {
                    Ok(WasmMsg::Execute {
                        contract_addr: self_addr.to_string(),
                        msg: to_json_binary(&ExecuteMsg::Run { program: vec![p.clone()] })?,
                        funds: vec![],
                    }
                    .into())
                })
                .collect::<StdResult<_>>()?;
            vec![WasmMsg::Execute {
                contract_addr: router.clone(),
                msg: to_json_binary(&vault_router::ExecuteMsg::FlashLoan {
                    assets: vec![Asset { info: asset.clone(), amount: *amount }],
                    msgs,
                })?,
                funds: vec![],
            }
            .into()]
        }
    })
}

fn execute(_deps: DepsMut, env: Env, _info: MessageInfo, msg: ExecuteMsg) -> StdResult<Response> {
    match msg {
        ExecuteMsg::Run { program } => {
            let mut msgs = vec![];
            for a in &program {
                msgs.extend(action_msgs(env.contract.address.as_str(), a)?);
            }
            Ok(Response::new().add_messages(msgs))
        }
    }
}

fn instantiate(_deps: DepsMut, _env: Env, _info: MessageInfo, _msg: Empty) -> StdResult<Response> {
    Ok(Response::new())
}

fn query(_deps: Deps, _env: Env, _msg: Empty) -> StdResult<Binary> {
    to_json_binary(&Empty {})
}

pub fn borrower_code() -> Box<dyn Contract<Empty>> {
    crate::world::faulty(Box::new(ContractWrapper::new(execute, instantiate, query)))
}
