//! The simulated chain: cw-multi-test `App` with a fault-injecting bank and fault-injecting
//! contract wrappers. The per-transaction fault plan lives in a thread-local; one run never
//! leaves its thread.

use std::cell::RefCell;
use std::panic::{catch_unwind, AssertUnwindSafe};

use anyhow::{bail, Result as AnyResult};
use cosmwasm_std::testing::{MockApi, MockStorage};
use cosmwasm_std::{
    coins, to_json_binary, Addr, Api, BankMsg, BankQuery, Binary, BlockInfo, Coin, CosmosMsg,
    CustomQuery, Deps, DepsMut, Empty, Env, GovMsg, IbcMsg, IbcQuery, MessageInfo, Order, Querier,
    Reply, Response, Storage, Timestamp, Uint128, WasmMsg,
};
use cw_multi_test::{
    App, AppBuilder, AppResponse, Bank, BankKeeper, BankSudo, Contract, ContractWrapper,
    CosmosRouter, DistributionKeeper, FailingModule, Module, StakeKeeper, WasmKeeper,
};
use schemars::JsonSchema;
use serde::de::DeserializeOwned;
use serde::{Deserialize, Serialize};
use sha2::{Digest, Sha256};

use white_whale_std::pool_network::asset::AssetInfo;

pub type SimApp = App<
    FaultyBank,
    MockApi,
    MockStorage,
    FailingModule<Empty, Empty, Empty>,
    WasmKeeper<Empty, Empty>,
    StakeKeeper,
    DistributionKeeper,
    FailingModule<IbcMsg, IbcQuery, Empty>,
    FailingModule<GovMsg, Empty, Empty>,
>;

// ---------------------------------------------------------------------------------------------
// fault plan
// ---------------------------------------------------------------------------------------------

/// What the simulator injects into ONE transaction.
#[derive(Serialize, Deserialize, Clone, Copy, Debug, PartialEq, Eq, Default)]
#[serde(rename_all = "snake_case")]
pub enum Fault {
    #[default]
    None,
    /// the k-th contract entry (execute / instantiate / reply, counted from 1, the top-level
    /// call is 1) of this transaction returns an error
    SubCall(u32),
    /// the k-th bank Send/Burn of this transaction fails
    Bank(u32),
    /// the k-th smart query issued from inside this transaction fails
    Query(u32),
}

#[derive(Default, Debug, Clone)]
pub struct FaultState {
    pub plan: Fault,
    pub in_tx: bool,
    pub calls: u32,
    pub banks: u32,
    pub queries: u32,
    pub fired: bool,
    /// contract-call log of the current tx: (contract address, kind)
    pub log_calls: bool,
    pub call_log: Vec<String>,
    /// contracts whose query entry point is currently executing (outermost first)
    pub query_stack: Vec<String>,
    /// where the injected query fault fired: the query stack at that moment (outermost first)
    pub query_fault_at: Vec<String>,
}

thread_local! {
    static FAULTS: RefCell<FaultState> = RefCell::new(FaultState::default());
    static LAST_PANIC: RefCell<String> = RefCell::new(String::new());
}

pub fn install_panic_hook() {
    std::panic::set_hook(Box::new(|info| {
        let msg = if let Some(s) = info.payload().downcast_ref::<&str>() {
            s.to_string()
        } else if let Some(s) = info.payload().downcast_ref::<String>() {
            s.clone()
        } else {
            "<non-string panic>".to_string()
        };
        let loc = info
            .location()
            .map(|l| format!("{}:{}", l.file(), l.line()))
            .unwrap_or_default();
        LAST_PANIC.with(|p| *p.borrow_mut() = format!("{msg} @ {loc}"));
    }));
}

pub fn last_panic() -> String {
    LAST_PANIC.with(|p| p.borrow().clone())
}

fn tick_call(addr: &str, kind: &str) -> AnyResult<()> {
    FAULTS.with(|f| {
        let mut f = f.borrow_mut();
        if !f.in_tx {
            return Ok(());
        }
        f.calls += 1;
        if f.log_calls {
            let n = f.calls;
            f.call_log.push(format!("{n}:{kind}:{addr}"));
        }
        if let Fault::SubCall(k) = f.plan {
            if f.calls == k && !f.fired {
                f.fired = true;
                bail!("injected fault: sub-call {k} fails");
            }
        }
        Ok(())
    })
}

fn tick_bank() -> AnyResult<()> {
    FAULTS.with(|f| {
        let mut f = f.borrow_mut();
        if !f.in_tx {
            return Ok(());
        }
        f.banks += 1;
        if let Fault::Bank(k) = f.plan {
            if f.banks == k && !f.fired {
                f.fired = true;
                bail!("injected fault: bank operation {k} fails");
            }
        }
        Ok(())
    })
}

fn tick_query(addr: &str) -> AnyResult<()> {
    FAULTS.with(|f| {
        let mut f = f.borrow_mut();
        if !f.in_tx {
            return Ok(());
        }
        f.queries += 1;
        if let Fault::Query(k) = f.plan {
            if f.queries == k && !f.fired {
                f.fired = true;
                let mut at = f.query_stack.clone();
                at.push(addr.to_string());
                f.query_fault_at = at;
                bail!("injected fault: query {k} fails");
            }
        }
        Ok(())
    })
}

fn query_enter(addr: &str) {
    FAULTS.with(|f| {
        let mut f = f.borrow_mut();
        if f.in_tx {
            f.query_stack.push(addr.to_string());
        }
    })
}

fn query_leave() {
    FAULTS.with(|f| {
        let mut f = f.borrow_mut();
        if f.in_tx {
            f.query_stack.pop();
        }
    })
}

// ---------------------------------------------------------------------------------------------
// bank seam
// ---------------------------------------------------------------------------------------------

#[derive(Default)]
pub struct FaultyBank {
    inner: BankKeeper,
}

impl FaultyBank {
    pub fn init_balance(
        &self,
        storage: &mut dyn Storage,
        account: &Addr,
        amount: Vec<Coin>,
    ) -> AnyResult<()> {
        self.inner.init_balance(storage, account, amount)
    }
}

impl Bank for FaultyBank {}

impl Module for FaultyBank {
    type ExecT = BankMsg;
    type QueryT = BankQuery;
    type SudoT = BankSudo;

    fn execute<ExecC, QueryC>(
        &self,
        api: &dyn Api,
        storage: &mut dyn Storage,
        router: &dyn CosmosRouter<ExecC = ExecC, QueryC = QueryC>,
        block: &BlockInfo,
        sender: Addr,
        msg: BankMsg,
    ) -> AnyResult<AppResponse>
    where
        ExecC: std::fmt::Debug + Clone + PartialEq + JsonSchema + DeserializeOwned + 'static,
        QueryC: CustomQuery + DeserializeOwned + 'static,
    {
        tick_bank()?;
        self.inner.execute(api, storage, router, block, sender, msg)
    }

    fn sudo<ExecC, QueryC>(
        &self,
        api: &dyn Api,
        storage: &mut dyn Storage,
        router: &dyn CosmosRouter<ExecC = ExecC, QueryC = QueryC>,
        block: &BlockInfo,
        msg: BankSudo,
    ) -> AnyResult<AppResponse>
    where
        ExecC: std::fmt::Debug + Clone + PartialEq + JsonSchema + DeserializeOwned + 'static,
        QueryC: CustomQuery + DeserializeOwned + 'static,
    {
        self.inner.sudo(api, storage, router, block, msg)
    }

    fn query(
        &self,
        api: &dyn Api,
        storage: &dyn Storage,
        querier: &dyn Querier,
        block: &BlockInfo,
        request: BankQuery,
    ) -> AnyResult<Binary> {
        self.inner.query(api, storage, querier, block, request)
    }
}

// ---------------------------------------------------------------------------------------------
// contract seam
// ---------------------------------------------------------------------------------------------

/// Wraps any contract; ticks the fault plan before delegating to the real entry point.
pub struct Faulty {
    inner: Box<dyn Contract<Empty>>,
}

pub fn faulty(inner: Box<dyn Contract<Empty>>) -> Box<dyn Contract<Empty>> {
    Box::new(Faulty { inner })
}

impl Contract<Empty> for Faulty {
    fn execute(
        &self,
        deps: DepsMut<Empty>,
        env: Env,
        info: MessageInfo,
        msg: Vec<u8>,
    ) -> AnyResult<Response<Empty>> {
        tick_call(env.contract.address.as_str(), "exec")?;
        self.inner.execute(deps, env, info, msg)
    }
    fn instantiate(
        &self,
        deps: DepsMut<Empty>,
        env: Env,
        info: MessageInfo,
        msg: Vec<u8>,
    ) -> AnyResult<Response<Empty>> {
        tick_call(env.contract.address.as_str(), "init")?;
        self.inner.instantiate(deps, env, info, msg)
    }
    fn query(&self, deps: Deps<Empty>, env: Env, msg: Vec<u8>) -> AnyResult<Binary> {
        let addr = env.contract.address.to_string();
        tick_query(&addr)?;
        query_enter(&addr);
        let r = self.inner.query(deps, env, msg);
        query_leave();
        r
    }
    fn sudo(&self, deps: DepsMut<Empty>, env: Env, msg: Vec<u8>) -> AnyResult<Response<Empty>> {
        self.inner.sudo(deps, env, msg)
    }
    fn reply(&self, deps: DepsMut<Empty>, env: Env, msg: Reply) -> AnyResult<Response<Empty>> {
        tick_call(env.contract.address.as_str(), "reply")?;
        self.inner.reply(deps, env, msg)
    }
    fn migrate(&self, deps: DepsMut<Empty>, env: Env, msg: Vec<u8>) -> AnyResult<Response<Empty>> {
        tick_call(env.contract.address.as_str(), "migrate")?;
        self.inner.migrate(deps, env, msg)
    }
}

// ---------------------------------------------------------------------------------------------
// code registry: the REAL contracts, linked from /repo by path
// ---------------------------------------------------------------------------------------------

pub mod code {
    use super::*;

    pub fn token() -> Box<dyn Contract<Empty>> {
        faulty(Box::new(ContractWrapper::new(
            terraswap_token::contract::execute,
            terraswap_token::contract::instantiate,
            terraswap_token::contract::query,
        )))
    }
    pub fn pair() -> Box<dyn Contract<Empty>> {
        faulty(Box::new(
            ContractWrapper::new(
                terraswap_pair::contract::execute,
                terraswap_pair::contract::instantiate,
                terraswap_pair::contract::query,
            )
            .with_reply(terraswap_pair::contract::reply)
            .with_migrate(terraswap_pair::contract::migrate),
        ))
    }
    pub fn trio() -> Box<dyn Contract<Empty>> {
        faulty(Box::new(
            ContractWrapper::new(
                stableswap_3pool::contract::execute,
                stableswap_3pool::contract::instantiate,
                stableswap_3pool::contract::query,
            )
            .with_reply(stableswap_3pool::contract::reply)
            .with_migrate(stableswap_3pool::contract::migrate),
        ))
    }
    pub fn pool_factory() -> Box<dyn Contract<Empty>> {
        faulty(Box::new(
            ContractWrapper::new(
                terraswap_factory::contract::execute,
                terraswap_factory::contract::instantiate,
                terraswap_factory::contract::query,
            )
            .with_reply(terraswap_factory::contract::reply)
            .with_migrate(terraswap_factory::contract::migrate),
        ))
    }
    pub fn pool_router() -> Box<dyn Contract<Empty>> {
        faulty(Box::new(
            ContractWrapper::new(
                terraswap_router::contract::execute,
                terraswap_router::contract::instantiate,
                terraswap_router::contract::query,
            )
            .with_migrate(terraswap_router::contract::migrate),
        ))
    }
    pub fn frontend_helper() -> Box<dyn Contract<Empty>> {
        faulty(Box::new(
            ContractWrapper::new(
                frontend_helper::contract::execute,
                frontend_helper::contract::instantiate,
                frontend_helper::contract::query,
            )
            .with_reply(frontend_helper::contract::reply),
        ))
    }
    pub fn incentive() -> Box<dyn Contract<Empty>> {
        faulty(Box::new(
            ContractWrapper::new(
                incentive::contract::execute,
                incentive::contract::instantiate,
                incentive::contract::query,
            )
            .with_migrate(incentive::contract::migrate),
        ))
    }
    pub fn incentive_factory() -> Box<dyn Contract<Empty>> {
        faulty(Box::new(
            ContractWrapper::new(
                incentive_factory::contract::execute,
                incentive_factory::contract::instantiate,
                incentive_factory::contract::query,
            )
            .with_reply(incentive_factory::contract::reply)
            .with_migrate(incentive_factory::contract::migrate),
        ))
    }
    pub fn vault() -> Box<dyn Contract<Empty>> {
        faulty(Box::new(
            ContractWrapper::new(
                vault::contract::execute,
                vault::contract::instantiate,
                vault::contract::query,
            )
            .with_reply(vault::reply::reply)
            .with_migrate(vault::contract::migrate),
        ))
    }
    pub fn vault_factory() -> Box<dyn Contract<Empty>> {
        faulty(Box::new(
            ContractWrapper::new(
                vault_factory::contract::execute,
                vault_factory::contract::instantiate,
                vault_factory::contract::query,
            )
            .with_reply(vault_factory::reply::reply)
            .with_migrate(vault_factory::contract::migrate),
        ))
    }
    pub fn vault_router() -> Box<dyn Contract<Empty>> {
        faulty(Box::new(
            ContractWrapper::new(
                vault_router::contract::execute,
                vault_router::contract::instantiate,
                vault_router::contract::query,
            )
            .with_migrate(vault_router::contract::migrate),
        ))
    }
    pub fn fee_collector() -> Box<dyn Contract<Empty>> {
        faulty(Box::new(
            ContractWrapper::new(
                fee_collector::contract::execute,
                fee_collector::contract::instantiate,
                fee_collector::contract::query,
            )
            .with_reply(fee_collector::contract::reply)
            .with_migrate(fee_collector::contract::migrate),
        ))
    }
    pub fn fee_distributor() -> Box<dyn Contract<Empty>> {
        faulty(Box::new(
            ContractWrapper::new(
                fee_distributor::contract::execute,
                fee_distributor::contract::instantiate,
                fee_distributor::contract::query,
            )
            .with_reply(fee_distributor::contract::reply)
            .with_migrate(fee_distributor::contract::migrate),
        ))
    }
    pub fn fee_distributor_mock() -> Box<dyn Contract<Empty>> {
        faulty(Box::new(ContractWrapper::new(
            fee_distributor_mock::contract::execute,
            fee_distributor_mock::contract::instantiate,
            fee_distributor_mock::contract::query,
        )))
    }
    pub fn whale_lair() -> Box<dyn Contract<Empty>> {
        faulty(Box::new(
            ContractWrapper::new(
                whale_lair::contract::execute,
                whale_lair::contract::instantiate,
                whale_lair::contract::query,
            )
            .with_migrate(whale_lair::contract::migrate),
        ))
    }
    pub fn epoch_manager() -> Box<dyn Contract<Empty>> {
        faulty(Box::new(
            ContractWrapper::new(
                epoch_manager::contract::execute,
                epoch_manager::contract::instantiate,
                epoch_manager::contract::query,
            )
            .with_migrate(epoch_manager::contract::migrate),
        ))
    }
}

// ---------------------------------------------------------------------------------------------
// world construction and transactions
// ---------------------------------------------------------------------------------------------

pub const GENESIS_TIME_NS: u64 = 1_700_000_000_000_000_000;
pub const GENESIS_HEIGHT: u64 = 1_000_000;

pub fn genesis_block() -> BlockInfo {
    BlockInfo {
        height: GENESIS_HEIGHT,
        time: Timestamp::from_nanos(GENESIS_TIME_NS),
        chain_id: "wwsim-1".to_string(),
    }
}

/// Builds the app; `balances` are the genesis native balances.
pub fn new_app(balances: &[(&str, Vec<Coin>)]) -> SimApp {
    FAULTS.with(|f| *f.borrow_mut() = FaultState::default());
    let bank = FaultyBank::default();
    AppBuilder::new()
        .with_bank(bank)
        .with_block(genesis_block())
        .build(|router, _api, storage| {
            for (who, coins) in balances {
                router
                    .bank
                    .init_balance(storage, &Addr::unchecked(*who), coins.clone())
                    .unwrap();
            }
        })
}

#[derive(Debug, Clone)]
pub enum Outcome {
    Ok(AppResponse),
    Err(String),
    Panic(String),
}

impl Outcome {
    pub fn is_ok(&self) -> bool {
        matches!(self, Outcome::Ok(_))
    }
    pub fn err_text(&self) -> String {
        match self {
            Outcome::Ok(_) => String::new(),
            Outcome::Err(e) => e.clone(),
            Outcome::Panic(p) => format!("PANIC: {p}"),
        }
    }
    pub fn kind(&self) -> usize {
        match self {
            Outcome::Ok(_) => 0,
            Outcome::Err(_) => 1,
            Outcome::Panic(_) => 2,
        }
    }
    /// First value of attribute `key` in any wasm event.
    pub fn attr(&self, key: &str) -> Option<String> {
        if let Outcome::Ok(r) = self {
            for e in &r.events {
                for a in &e.attributes {
                    if a.key == key {
                        return Some(a.value.clone());
                    }
                }
            }
        }
        None
    }
    /// All values of attribute `key`, restricted to events that also carry `action == act`
    pub fn attrs_of_action(&self, act: &str, key: &str) -> Vec<String> {
        let mut out = vec![];
        if let Outcome::Ok(r) = self {
            for e in &r.events {
                if e.attributes.iter().any(|a| a.key == "action" && a.value == act) {
                    for a in &e.attributes {
                        if a.key == key {
                            out.push(a.value.clone());
                        }
                    }
                }
            }
        }
        out
    }
}

#[derive(Debug, Clone)]
pub struct TxResult {
    pub outcome: Outcome,
    pub fault_fired: bool,
    pub calls: u32,
    pub banks: u32,
    pub queries: u32,
    pub call_log: Vec<String>,
    /// for a fired Fault::Query: the contracts whose queries were executing, outermost first,
    /// ending with the contract whose query was made to fail
    pub query_fault_at: Vec<String>,
}

/// Executes one atomic transaction (possibly several messages of one sender) under the given
/// fault. A contract panic is the on-chain abort: nothing is committed.
pub fn tx(app: &mut SimApp, sender: &str, msgs: Vec<CosmosMsg>, fault: Fault) -> TxResult {
    tx_opt(app, sender, msgs, fault, false)
}

pub fn tx_opt(
    app: &mut SimApp,
    sender: &str,
    msgs: Vec<CosmosMsg>,
    fault: Fault,
    log_calls: bool,
) -> TxResult {
    FAULTS.with(|f| {
        let mut f = f.borrow_mut();
        *f = FaultState {
            plan: fault,
            in_tx: true,
            log_calls,
            ..Default::default()
        };
    });
    let sender_addr = Addr::unchecked(sender);
    let res = catch_unwind(AssertUnwindSafe(|| app.execute_multi(sender_addr, msgs)));
    let st = FAULTS.with(|f| {
        let mut f = f.borrow_mut();
        f.in_tx = false;
        f.clone()
    });
    let outcome = match res {
        Ok(Ok(mut v)) => {
            // merge the responses of a multi-message tx
            let mut all = AppResponse::default();
            for r in v.drain(..) {
                all.events.extend(r.events);
                if r.data.is_some() {
                    all.data = r.data;
                }
            }
            Outcome::Ok(all)
        }
        Ok(Err(e)) => Outcome::Err(format!("{:#}", e)),
        Err(_) => Outcome::Panic(last_panic()),
    };
    TxResult {
        outcome,
        fault_fired: st.fired,
        calls: st.calls,
        banks: st.banks,
        queries: st.queries,
        call_log: st.call_log,
        query_fault_at: st.query_fault_at,
    }
}

pub fn wasm_exec<T: Serialize>(contract: &str, msg: &T, funds: Vec<Coin>) -> CosmosMsg {
    CosmosMsg::Wasm(WasmMsg::Execute {
        contract_addr: contract.to_string(),
        msg: to_json_binary(msg).unwrap(),
        funds,
    })
}

pub fn bank_send(to: &str, amount: u128, denom: &str) -> CosmosMsg {
    CosmosMsg::Bank(BankMsg::Send {
        to_address: to.to_string(),
        amount: coins(amount, denom),
    })
}

/// Setup-time helpers: these must succeed, otherwise the harness itself is broken.
pub fn must_instantiate<T: Serialize>(
    app: &mut SimApp,
    code_id: u64,
    sender: &str,
    msg: &T,
    label: &str,
    admin: Option<&str>,
) -> String {
    use cw_multi_test::Executor;
    app.instantiate_contract(
        code_id,
        Addr::unchecked(sender),
        msg,
        &[],
        label,
        admin.map(|s| s.to_string()),
    )
    .unwrap_or_else(|e| panic!("harness: instantiate {label} failed: {e:#}"))
    .to_string()
}

pub fn must_exec<T: Serialize>(
    app: &mut SimApp,
    sender: &str,
    contract: &str,
    msg: &T,
    funds: Vec<Coin>,
) -> AppResponse {
    let r = tx(app, sender, vec![wasm_exec(contract, msg, funds)], Fault::None);
    match r.outcome {
        Outcome::Ok(r) => r,
        o => panic!(
            "harness: setup exec on {contract} failed: {} msg={}",
            o.err_text(),
            serde_json::to_string(msg).unwrap()
        ),
    }
}

pub fn new_cw20(
    app: &mut SimApp,
    token_code: u64,
    symbol: &str,
    decimals: u8,
    minter: &str,
    balances: &[(&str, u128)],
) -> String {
    let msg = white_whale_std::pool_network::token::InstantiateMsg {
        name: format!("{symbol} token"),
        symbol: symbol.to_string(),
        decimals,
        initial_balances: balances
            .iter()
            .map(|(a, b)| cw20::Cw20Coin {
                address: a.to_string(),
                amount: Uint128::new(*b),
            })
            .collect(),
        mint: Some(cw20::MinterResponse {
            minter: minter.to_string(),
            cap: None,
        }),
    };
    must_instantiate(app, token_code, minter, &msg, symbol, None)
}

// ---------------------------------------------------------------------------------------------
// observation helpers
// ---------------------------------------------------------------------------------------------

pub fn native(denom: &str) -> AssetInfo {
    AssetInfo::NativeToken {
        denom: denom.to_string(),
    }
}
pub fn token(addr: &str) -> AssetInfo {
    AssetInfo::Token {
        contract_addr: addr.to_string(),
    }
}
pub fn asset_id(a: &AssetInfo) -> String {
    match a {
        AssetInfo::NativeToken { denom } => denom.clone(),
        AssetInfo::Token { contract_addr } => contract_addr.clone(),
    }
}

pub fn balance(app: &SimApp, who: &str, asset: &AssetInfo) -> u128 {
    match asset {
        AssetInfo::NativeToken { denom } => app
            .wrap()
            .query_balance(who, denom)
            .map(|c| c.amount.u128())
            .unwrap_or(0),
        AssetInfo::Token { contract_addr } => {
            let r: Result<cw20::BalanceResponse, _> = app.wrap().query_wasm_smart(
                contract_addr,
                &cw20::Cw20QueryMsg::Balance {
                    address: who.to_string(),
                },
            );
            r.map(|b| b.balance.u128()).unwrap_or(0)
        }
    }
}

pub fn cw20_supply(app: &SimApp, tok: &str) -> u128 {
    let r: cw20::TokenInfoResponse = app
        .wrap()
        .query_wasm_smart(tok, &cw20::Cw20QueryMsg::TokenInfo {})
        .expect("harness: token info");
    r.total_supply.u128()
}

/// Total supply of a native denom = sum over every bank account (scans the bank's storage).
pub fn native_supply(app: &SimApp, denom: &str) -> u128 {
    app.read_module(|_r, _a, storage| {
        let mut tot = 0u128;
        for (k, v) in storage.range(None, None, Order::Ascending) {
            // bank namespace: length-prefixed "bank" then "balances"
            if k.len() > 6 && &k[2..6] == b"bank" {
                if let Ok(cs) = serde_json::from_slice::<Vec<Coin>>(&v) {
                    for c in cs {
                        if c.denom == denom {
                            tot += c.amount.u128();
                        }
                    }
                }
            }
        }
        tot
    })
}

pub fn supply(app: &SimApp, asset: &AssetInfo) -> u128 {
    match asset {
        AssetInfo::NativeToken { denom } => native_supply(app, denom),
        AssetInfo::Token { contract_addr } => cw20_supply(app, contract_addr),
    }
}

pub fn query<T: DeserializeOwned, Q: Serialize>(app: &SimApp, contract: &str, q: &Q) -> Result<T, String> {
    let r = catch_unwind(AssertUnwindSafe(|| {
        app.wrap().query_wasm_smart::<T>(contract, q)
    }));
    match r {
        Ok(Ok(v)) => Ok(v),
        Ok(Err(e)) => Err(format!("{e}")),
        Err(_) => Err(format!("PANIC: {}", last_panic())),
    }
}

pub fn raw<T: DeserializeOwned>(app: &SimApp, contract: &str, key: &[u8]) -> Option<T> {
    let v = app.wrap().query_wasm_raw(contract, key.to_vec()).ok()??;
    serde_json::from_slice(&v).ok()
}

/// storage key of a cw-storage-plus Map entry with a composite key
pub fn map_key(namespace: &str, parts: &[&[u8]]) -> Vec<u8> {
    let mut k = vec![];
    let ns = namespace.as_bytes();
    k.extend_from_slice(&(ns.len() as u16).to_be_bytes());
    k.extend_from_slice(ns);
    for (i, p) in parts.iter().enumerate() {
        if i + 1 < parts.len() {
            k.extend_from_slice(&(p.len() as u16).to_be_bytes());
        }
        k.extend_from_slice(p);
    }
    k
}

fn canon_json(v: &serde_json::Value, out: &mut Vec<u8>) {
    use serde_json::Value::*;
    match v {
        Object(m) => {
            let mut keys: Vec<&std::string::String> = m.keys().collect();
            keys.sort();
            out.push(b'{');
            for k in keys {
                out.extend_from_slice(k.as_bytes());
                out.push(b':');
                canon_json(&m[k], out);
                out.push(b',');
            }
            out.push(b'}');
        }
        Array(a) => {
            out.push(b'[');
            for x in a {
                canon_json(x, out);
                out.push(b',');
            }
            out.push(b']');
        }
        other => out.extend_from_slice(other.to_string().as_bytes()),
    }
}

/// SHA-256 over the whole chain storage (bank + every contract), JSON values canonicalised
/// (object keys sorted) so that `HashMap` serialisation order does not leak into the digest.
pub fn fingerprint(app: &SimApp) -> [u8; 32] {
    app.read_module(|_r, _a, storage| {
        let mut h = Sha256::new();
        let mut buf = Vec::with_capacity(256);
        for (k, v) in storage.range(None, None, Order::Ascending) {
            h.update((k.len() as u32).to_be_bytes());
            h.update(&k);
            buf.clear();
            match serde_json::from_slice::<serde_json::Value>(&v) {
                Ok(j) => canon_json(&j, &mut buf),
                Err(_) => buf.extend_from_slice(&v),
            }
            h.update((buf.len() as u32).to_be_bytes());
            h.update(&buf);
        }
        h.finalize().into()
    })
}

pub fn fp_hex(app: &SimApp) -> String {
    hex::encode(fingerprint(app))
}

pub fn set_clock(app: &mut SimApp, time_ns: u64, height: u64) {
    let mut b = app.block_info();
    b.time = Timestamp::from_nanos(time_ns);
    b.height = height;
    app.set_block(b);
}

pub fn now_ns(app: &SimApp) -> u64 {
    app.block_info().time.nanos()
}
pub fn height(app: &SimApp) -> u64 {
    app.block_info().height
}
